"""Common machinery: cases, verdicts, evidence, replay files, known findings.

A property module registers *workloads*.  A workload is a function
    fn(ctx, rng, case)
that generates ONE case from `rng` (a private random.Random derived from
VERIF_SEED / property / workload / case index), drives the real library through
it and calls ctx.fail(...) when an oracle refutes the property.  Everything a
case does is deterministic in (seed, tier, workload, index), which is what a
replay file records.
"""
import hashlib
import json
import os
import random
import sys
import time
import traceback
import zlib
from collections import Counter

from . import repo

EXIT_HELD = 0
EXIT_VIOLATION = 1
EXIT_INCONCLUSIVE = 2


class Violation(Exception):
    def __init__(self, msg, **detail):
        super().__init__(msg)
        self.msg = msg
        self.detail = detail


class Inconclusive(Exception):
    pass


class Retire(Exception):
    """a case stops early on purpose (known finding reached, instance tainted)"""


class StopRun(Exception):
    pass


def jsonable(x, depth=0):
    if depth > 6:
        return repr(x)[:200]
    if isinstance(x, (str, int, bool)) or x is None:
        if isinstance(x, int) and not isinstance(x, bool) and abs(x) > 2**63:
            return str(x)
        return x
    if isinstance(x, float):
        return x if x == x and abs(x) != float("inf") else repr(x)
    if isinstance(x, (bytes, bytearray)):
        return {"hex": bytes(x[:256]).hex(), "len": len(x)}
    if isinstance(x, dict):
        return {str(k): jsonable(v, depth + 1) for k, v in list(x.items())[:200]}
    if isinstance(x, (list, tuple, set, frozenset)):
        seq = list(x) if not isinstance(x, (set, frozenset)) else sorted(x, key=repr)
        return [jsonable(v, depth + 1) for v in seq[:400]]
    return repr(x)[:300]


class Case:
    __slots__ = ("workload", "index", "desc", "ops", "nontrivial", "tags")

    def __init__(self, workload, index):
        self.workload = workload
        self.index = index
        self.desc = {}
        self.ops = []
        self.nontrivial = False
        self.tags = set()

    def op(self, *what):
        self.ops.append(what)

    def digest(self):
        h = hashlib.blake2b(digest_size=8)
        h.update(repr((self.workload, sorted(self.desc.items(), key=lambda kv: kv[0]), self.ops)).encode("utf-8", "replace"))
        return h.hexdigest()

    def as_sample(self, maxops=14):
        return {
            "workload": self.workload,
            "index": self.index,
            "desc": jsonable(self.desc),
            "ops": jsonable(self.ops[:maxops]),
            "n_ops": len(self.ops),
        }


class Workload:
    def __init__(self, name, fn, quick, thorough, exhaustive=False, doc=""):
        self.name = name
        self.fn = fn
        self.n = {"quick": quick, "thorough": thorough}
        self.exhaustive = exhaustive  # the index range enumerates a finite space completely
        self.doc = doc


class Prop:
    """what a property module exports as PROP"""

    def __init__(self, pid, level, rule, workloads, assumptions=(), setup=None, finish=None, required=(), shards=None, teardown=None):
        self.pid = pid
        self.level = level
        self.rule = rule
        self.workloads = workloads
        self.assumptions = list(assumptions)
        self.setup = setup  # called once per process before cases
        self.finish = finish  # called in the parent with merged evidence (may add keys / raise Inconclusive)
        self.required = list(required)  # counters that must be > 0, else inconclusive
        self.shards = shards or {"quick": 4, "thorough": 16}
        self.teardown = teardown  # called once per process after the cases (may call ctx.late_violation)


def load_known_findings():
    path = os.path.join(repo.VERIF_ROOT, "known_findings.json")
    try:
        with open(path) as f:
            data = json.load(f)
    except FileNotFoundError:
        return {}
    out = {}
    for ent in data.get("findings", []):
        if ent.get("status") == "known":
            out[ent["id"]] = ent
    return out


class Ctx:
    def __init__(self, prop, tier, seed, shard=(0, 1), replaying=False):
        self.prop = prop
        self.pid = prop.pid
        self.tier = tier
        self.seed = seed
        self.shard = shard
        self.replaying = replaying
        self.counters = Counter()
        self.sets = {}
        self.maxima = {}
        self.samples = []
        self.distinct = set()
        self.evaluations = 0
        self.violations = []
        self.known_hits = Counter()
        self.known_examples = {}
        self.harness_errors = []
        self.inconclusive = []
        self.exhaustive_done = {}
        self.truncated = []
        self.known = load_known_findings()
        self.t0 = time.time()
        self.case = None
        self.max_violations = 5
        self.state = {}  # per-process scratch for property modules (tmp dirs, built tools)

    def tmpdir(self):
        """per-process scratch directory, removed at exit"""
        d = self.state.get("_tmpdir")
        if d is None:
            import atexit
            import shutil
            import tempfile

            d = tempfile.mkdtemp(prefix="pv-")
            self.state["_tmpdir"] = d
            atexit.register(shutil.rmtree, d, True)
        return d

    # ---- observations -------------------------------------------------
    def count(self, name, n=1):
        self.counters[name] += n

    def observe(self, name, value, cap=400):
        s = self.sets.setdefault(name, set())
        if len(s) < cap:
            s.add(value)

    def alternating(self, seq):
        """the same elements, in insertion order / reverse order on alternate calls: an answer must not depend on which key was
        queried just before (a stale one-entry cache would otherwise be re-primed identically every time)"""
        self._alt = getattr(self, "_alt", 0) + 1
        return list(seq) if self._alt % 2 else list(reversed(list(seq)))

    def maximum(self, name, value):
        if name not in self.maxima or value > self.maxima[name]:
            self.maxima[name] = value

    # ---- verdict helpers ---------------------------------------------
    def fail(self, msg, **detail):
        raise Violation(msg, **detail)

    def check(self, cond, msg, **detail):
        self.counters["oracle_evaluations"] += 1
        if not cond:
            raise Violation(msg, **detail)

    def known_finding(self, fid, what, **witness):
        """the case reached the region of a listed known finding; record it and retire the case.
        If the id is not listed as `known`, it is an ordinary violation."""
        if fid in self.known and self.known[fid].get("property") == self.pid:
            self.known_hits[fid] += 1
            if fid not in self.known_examples:
                self.known_examples[fid] = {"what": what, "witness": jsonable(witness),
                                            "case": self.case.as_sample() if self.case else None}
            raise Retire(fid)
        raise Violation(what, mechanism=fid, **witness)

    def late_violation(self, msg, **detail):
        """a violation observed outside a case (e.g. a sanitizer report at process exit)"""
        case = Case("teardown", self.shard[0])
        path = write_replay(self, case, msg, detail)
        self.violations.append({"message": msg, "replay": path, "workload": "teardown", "index": self.shard[0]})
        print(f"VIOLATION property={self.pid} replay={path}", flush=True)
        print(f"  what: {msg[:600]}", flush=True)

    def call(self, fn, *args, allowed=(), **kw):
        """call into the library; an exception that is not in `allowed` is a violation
        (the statement allows only its documented errors). Returns (result, exception)."""
        try:
            return fn(*args, **kw), None
        except Violation:
            raise
        except allowed as e:  # type: ignore
            return None, e
        except StepBudgetExceeded:
            raise
        except Exception as e:
            raise Violation(
                f"undocumented exception {type(e).__name__}: {e} from {getattr(fn, '__qualname__', fn)}",
                traceback=traceback.format_exc()[-3000:],
            )


class StepBudgetExceeded(Exception):
    pass


def case_rng(seed, pid, wl, idx):
    return random.Random(f"{seed}/{pid}/{wl}/{idx}")


def _tb_in_library(tb):
    for fr in traceback.extract_tb(tb):
        if repo.in_library(fr.filename):
            return True
    return False


def write_replay(ctx, case, msg, detail):
    # runs against another tree than /repo (scratch copies with a seeded change or a mutant) keep their replays apart
    d = os.path.join(repo.VERIF_ROOT, "replays") if repo.REPO_ROOT == "/repo" else os.path.join(repo.VERIF_ROOT, "replays", "other-tree")
    os.makedirs(d, exist_ok=True)
    path = os.path.join(d, f"{ctx.pid}-{ctx.seed}-{case.workload}-{case.index}.json")
    body = {
        "property": ctx.pid,
        "seed": ctx.seed,
        "tier": ctx.tier,
        "workload": case.workload,
        "index": case.index,
        "message": msg,
        "desc": jsonable(case.desc),
        "ops": jsonable(case.ops[-400:]),
        "n_ops": len(case.ops),
        "detail": jsonable(detail),
        "repo": repo.REPO_ROOT,
        "how_to_replay": f"./vcheck {ctx.pid} --replay {path}",
    }
    with open(path, "w") as f:
        json.dump(body, f, indent=1)
    return path


def run_one(ctx, wl, idx):
    """run case `idx` of workload `wl`; returns the Case"""
    case = Case(wl.name, idx)
    ctx.case = case
    rng = case_rng(ctx.seed, ctx.pid, wl.name, idx)
    random.seed(f"lib/{ctx.seed}/{ctx.pid}/{wl.name}/{idx}")  # the library's own use of `random`
    ctx.evaluations += 1
    ctx.counters[f"cases.{wl.name}"] += 1
    try:
        wl.fn(ctx, rng, case)
    except Retire:
        ctx.count("cases_retired_on_known_finding")
    except Violation as v:
        path = write_replay(ctx, case, v.msg, v.detail)
        ctx.violations.append({"message": v.msg, "replay": path, "workload": wl.name, "index": idx})
        print(f"VIOLATION property={ctx.pid} replay={path}", flush=True)
        print(f"  what: {v.msg[:600]}", flush=True)
        if len(ctx.violations) >= ctx.max_violations:
            raise StopRun()
        return case
    except StepBudgetExceeded as e:
        path = write_replay(ctx, case, f"step budget exceeded (non-termination): {e}", {})
        ctx.violations.append({"message": f"non-termination: {e}", "replay": path, "workload": wl.name, "index": idx})
        print(f"VIOLATION property={ctx.pid} replay={path}", flush=True)
        print(f"  what: call did not finish within its step budget: {e}", flush=True)
        if len(ctx.violations) >= ctx.max_violations:
            raise StopRun()
        return case
    except Inconclusive as e:
        ctx.inconclusive.append(f"{wl.name}#{idx}: {e}")
        return case
    except (KeyboardInterrupt, StopRun):
        raise
    except Exception as e:
        tb = traceback.format_exc()
        from .refimpl import FormatError

        if isinstance(e, FormatError):
            # an independent parser could not make sense of bytes the library exported
            msg = f"exported data is not a well-formed export: {e}"
            path = write_replay(ctx, case, msg, {"traceback": tb[-2000:]})
            ctx.violations.append({"message": msg, "replay": path, "workload": wl.name, "index": idx})
            print(f"VIOLATION property={ctx.pid} replay={path}", flush=True)
            print(f"  what: {msg[:600]}", flush=True)
            if len(ctx.violations) >= ctx.max_violations:
                raise StopRun()
        elif _tb_in_library(e.__traceback__):
            msg = f"undocumented exception {type(e).__name__}: {e} escaped a library call"
            path = write_replay(ctx, case, msg, {"traceback": tb[-3000:]})
            ctx.violations.append({"message": msg, "replay": path, "workload": wl.name, "index": idx})
            print(f"VIOLATION property={ctx.pid} replay={path}", flush=True)
            print(f"  what: {msg[:600]}", flush=True)
            if len(ctx.violations) >= ctx.max_violations:
                raise StopRun()
        else:
            ctx.harness_errors.append(f"{wl.name}#{idx}: {tb[-1500:]}")
            if len(ctx.harness_errors) >= 3:
                raise StopRun()
        return case
    # bookkeeping for evidence
    if case.nontrivial:
        ctx.distinct.add(case.digest())
    if len(ctx.samples) < 3 or (case.nontrivial and len(ctx.samples) < 6 and not any(s["workload"] == wl.name for s in ctx.samples)):
        ctx.samples.append(case.as_sample())
    return case


def run_shard(ctx, budget_s):
    prop = ctx.prop
    if prop.setup:
        prop.setup(ctx)
    i, n = ctx.shard
    try:
        for wl in prop.workloads:
            total = wl.n[ctx.tier]
            if callable(total):
                total = total(ctx)
            done_all = True
            for idx in range(total):
                if zlib.crc32(f"{wl.name}:{idx}".encode()) % n != i:
                    continue
                if time.time() - ctx.t0 > budget_s:
                    ctx.truncated.append(f"{wl.name}@{idx}/{total}")
                    done_all = False
                    break
                run_one(ctx, wl, idx)
            if wl.exhaustive and total > 0:
                ctx.exhaustive_done[wl.name] = done_all
    except StopRun:
        pass
    if prop.teardown:
        prop.teardown(ctx)


def _sorted(v):
    try:
        return sorted(v)
    except TypeError:
        return sorted(v, key=repr)


def partial_dump(ctx):
    return {
        "counters": dict(ctx.counters),
        "sets": {k: jsonable(_sorted(v)) for k, v in ctx.sets.items()},
        "maxima": jsonable(ctx.maxima),
        "samples": ctx.samples,
        "distinct": sorted(ctx.distinct),
        "evaluations": ctx.evaluations,
        "violations": ctx.violations,
        "known_hits": dict(ctx.known_hits),
        "known_examples": ctx.known_examples,
        "harness_errors": ctx.harness_errors,
        "inconclusive": ctx.inconclusive,
        "exhaustive_done": ctx.exhaustive_done,
        "truncated": ctx.truncated,
        "state_evidence": jsonable(ctx.state.get("evidence", {})),
    }


def merge_partials(parts):
    m = {
        "counters": Counter(), "sets": {}, "maxima": {}, "samples": [], "distinct": set(), "evaluations": 0,
        "violations": [], "known_hits": Counter(), "known_examples": {}, "harness_errors": [],
        "inconclusive": [], "exhaustive_done": {}, "truncated": [], "state_evidence": {},
    }
    for p in parts:
        m["counters"].update(p["counters"])
        for k, v in p["sets"].items():
            s = m["sets"].setdefault(k, [])
            for x in v:
                if x not in s and len(s) < 400:
                    s.append(x)
            try:
                s.sort()
            except TypeError:
                pass
        for k, v in p["maxima"].items():
            if k not in m["maxima"] or (isinstance(v, (int, float)) and v > m["maxima"][k]):
                m["maxima"][k] = v
        for s in p["samples"]:
            if len(m["samples"]) < 8:
                m["samples"].append(s)
        m["distinct"].update(p["distinct"])
        m["evaluations"] += p["evaluations"]
        m["violations"].extend(p["violations"])
        m["known_hits"].update(p["known_hits"])
        for k, v in p["known_examples"].items():
            m["known_examples"].setdefault(k, v)
        m["harness_errors"].extend(p["harness_errors"])
        m["inconclusive"].extend(p["inconclusive"])
        for k, v in p["exhaustive_done"].items():
            m["exhaustive_done"][k] = m["exhaustive_done"].get(k, True) and v
        m["truncated"].extend(p["truncated"])
        for k, v in p.get("state_evidence", {}).items():
            if isinstance(v, (int, float)) and not isinstance(v, bool):
                m["state_evidence"][k] = m["state_evidence"].get(k, 0) + v
            else:
                m["state_evidence"].setdefault(k, v)
    return m
