"""Child process of the C11 real-kill experiment.

    python -m pv.c11child <backing-file> <sidelog> <history.json> <kill_at>

Runs a scripted history on an on-disk Bloom filter.  Every executed library line while an add / close / export is in progress is a
crash point; at the <kill_at>-th one the process kills itself with SIGKILL (kill_at = 0: never, just count).  Started / finished
operations are appended to <sidelog> with O_APPEND (one write per record), so the record survives the kill like the page cache does.
"""
import json
import os
import signal
import sys


def main():
    path, sidelog, hist_file, kill_at = sys.argv[1], sys.argv[2], sys.argv[3], int(sys.argv[4])
    from . import repo, rngscript

    rngscript.install()
    repo.load()
    import probables as P

    from . import linehook

    with open(hist_file) as fh:
        hist = json.load(fh)
    log = os.open(sidelog, os.O_WRONLY | os.O_CREAT | os.O_APPEND, 0o644)

    def rec(msg):
        os.write(log, (msg + "\n").encode())

    state = {"n": 0}

    def cb(code, line):
        state["n"] += 1
        if kill_at and state["n"] == kill_at:
            rec(f"KILL {state['n']} {os.path.basename(code.co_filename)}:{line}")
            os.kill(os.getpid(), signal.SIGKILL)

    def key_of(k):
        return bytes.fromhex(k[1]) if k[0] == "b" else k[1]

    f = None
    for i, op in enumerate(hist["ops"]):
        kind = op[0]
        if kind == "create":
            f = P.BloomFilterOnDisk(path, hist["est"], hist["rate"])
            rec(f"created {i}")
        elif kind == "add":
            rec(f"start add {i}")
            with linehook.on_every_line(cb):
                f.add(key_of(op[1]))
            rec(f"done add {i}")
        elif kind == "close":
            rec(f"start close {i}")
            with linehook.on_every_line(cb):
                f.close()
            rec(f"done close {i}")
        elif kind == "reopen":
            os.chdir(op[1])
            f = P.BloomFilterOnDisk(op[2])
            rec(f"reopened {i}")
        elif kind == "export":
            rec(f"start export {i}")
            with linehook.on_every_line(cb):
                f.export(op[1])
            rec(f"done export {i}")
    rec(f"END {state['n']}")
    os._exit(0)


if __name__ == "__main__":
    main()
