"""Workload generators: hash-strategy zoo, geometries, key universes."""
import hashlib
import struct

from . import refimpl

# ---------------------------------------------------------------- keys

FIXED_KEYS = ["", "a", "b", "ab", "ba", "test", "key", "k0", "k1", "k2", "k3", "k4", "k5", "k6", "k7",
              "this is a test", "this is another test", "ключ", "鍵", "naïve", "x" * 300, "z179",
              b"", b"a", b"\x00", b"\xff", b"\x00\x00", b"k0", b"raw\x00bytes", b"\xf0\x9f\x98\x80", b"y" * 257]


def universe(rng, n, kinds=("str", "bytes")):
    """n distinct keys, a mix of fixed hostile ones and random ones"""
    keys = []
    pool = [k for k in FIXED_KEYS if ("str" in kinds and isinstance(k, str)) or ("bytes" in kinds and isinstance(k, bytes))]
    rng.shuffle(pool)
    for k in pool[: rng.randint(0, min(n, len(pool)))]:
        keys.append(k)
    while len(keys) < n:
        if "bytes" in kinds and ("str" not in kinds or rng.random() < 0.3):
            k = bytes(rng.getrandbits(8) for _ in range(rng.randint(0, 12)))
        else:
            alphabet = "abcdefgh" if rng.random() < 0.8 else "abcé鍵 \n"
            k = "".join(rng.choice(alphabet) for _ in range(rng.randint(1, 10)))
        if k not in keys:
            keys.append(k)
    if "str" in kinds and "bytes" in kinds and n >= 3 and rng.random() < 0.15:
        # a text key together with the bytes of its UTF-8 encoding: two different keys to every table and model, although they hash
        # alike under most strategies (for non-ASCII text the default FNV-1a tells them apart)
        src = [k for k in keys if isinstance(k, str)]
        if src:
            twin = to_bytes(rng.choice(src))
            if twin not in keys:
                keys[-1] = twin
    return keys


def ascii_universe(rng, n, prefix="k"):
    return [f"{prefix}{i}" for i in range(n)]


def to_bytes(key):
    return key if isinstance(key, (bytes, bytearray)) else key.encode("utf-8")


# ---------------------------------------------------------------- hash strategies  hf(key, depth) -> [int]

def _sha512_int(key, depth=0):
    # hash_with_depth_int calls this with the key first, then with hex strings of the previous value
    return int(hashlib.sha512(to_bytes(key)).hexdigest()[:16], 16)


def _blake_bytes(key, depth=0):
    return hashlib.blake2b(to_bytes(key), digest_size=16).digest()


def shipped_strategies():
    from probables import hashes as H

    return {"default_fnv_1a": H.default_fnv_1a, "default_md5": H.default_md5, "default_sha256": H.default_sha256}


def _salted_int(key, idx=0):
    # a pure function that USES its index argument (a per-round salt)
    return int(hashlib.sha256(to_bytes(key) + b"|%d" % idx).hexdigest()[:16], 16)


def _salted_bytes(key, idx=0):
    return hashlib.blake2b(to_bytes(key), digest_size=16, salt=b"%d" % idx).digest()


def _text_only_int(key, idx=0):
    # like the example in the library's documentation: written for TEXT keys only (a bytes key has no .encode)
    return int(hashlib.sha256(key.encode("utf-8")).hexdigest()[:16], 16)


def text_only_strategy():
    """a decorator-built strategy that accepts text keys only (raises AttributeError on bytes) - legitimate for structures fed text keys"""
    from probables import hashes as H

    return H.hash_with_depth_int(_text_only_int)


class DepthDependent:
    """hand-written strategy whose values depend on the DEPTH it is asked for as well as on the key (hf(key, 1)[0] != hf(key, 8)[0]).
    Legitimate for a structure used on its own, which always asks at its own depth; not prefix-stable, so no hash list computed for
    another depth may be handed to such a structure (the harness checks `depth_dependent` before it does that)."""

    depth_dependent = True

    def __call__(self, key, depth=1):
        kb = to_bytes(key)
        return [int.from_bytes(hashlib.blake2b(kb, digest_size=8, person=b"d%dI%d" % (depth, i)).digest(), "little") for i in range(depth)]

    def __repr__(self):
        return "DepthDependent()"


def decorator_strategies():
    from probables import hashes as H

    return {
        "decorated_int_sha512": H.hash_with_depth_int(_sha512_int),
        "decorated_bytes_blake2b": H.hash_with_depth_bytes(_blake_bytes),
        "decorated_int_salted": H.hash_with_depth_int(_salted_int),
        "decorated_bytes_salted": H.hash_with_depth_bytes(_salted_bytes),
        "decorated_int_fnv": H.hash_with_depth_int(H.fnv_1a),
    }


class TableHash:
    """hand-written strategy: chosen keys go to chosen values, everything else to an independent FNV chain.
    Pure, prefix-stable by construction."""

    def __init__(self, name, table, fallback_mod=None, offset=0):
        self.name = name
        self.table = table  # key -> list of ints (extended cyclically)
        self.fallback_mod = fallback_mod
        self.offset = offset

    def __call__(self, key, depth=1):
        t = self.table.get(key)
        out = []
        for i in range(depth):
            if t is not None:
                out.append(t[i % len(t)])
            else:
                v = refimpl.fnv1a_64(to_bytes(key), i)
                if self.fallback_mod:
                    v %= self.fallback_mod
                out.append(v + self.offset)
        return out

    def __repr__(self):
        return f"TableHash({self.name})"


HASH_KINDS = ["default_fnv_1a", "default_md5", "default_sha256", "decorated_int_sha512", "decorated_bytes_blake2b",
              "hand_all_one_cell", "hand_same_key_coincide", "hand_huge_values", "hand_negative", "hand_mod3", "hand_pairs_collide"]


def pick_hash(rng, keys, kind=None):
    """returns (name, fn-or-None); None means 'do not pass hash_function' (library default)"""
    kind = kind or rng.choice(HASH_KINDS + ["library_default"] * 2)
    if kind == "library_default":
        return kind, None
    sh = shipped_strategies()
    if kind in sh:
        return kind, sh[kind]
    de = decorator_strategies()
    if kind in de:
        return kind, de[kind]
    if kind == "hand_all_one_cell":
        v = rng.randint(0, 10**6)
        return kind, TableHash(kind, {k: [v] for k in keys})
    if kind == "hand_same_key_coincide":
        # positions of one key coincide (pairs), different keys mostly differ
        return kind, TableHash(kind, {k: [rng.randint(0, 10**4)] * 2 + [rng.randint(0, 10**4)] for k in keys})
    if kind == "hand_huge_values":
        return kind, TableHash(kind, {k: [2**64 + rng.randint(0, 10**9), 2**80 + rng.randint(0, 99), 10**30 + rng.randint(0, 99)] for k in keys})
    if kind == "hand_negative":
        return kind, TableHash(kind, {k: [-rng.randint(1, 10**6), rng.randint(0, 10**6), -1] for k in keys})
    if kind == "hand_mod3":
        return kind, TableHash(kind, {}, fallback_mod=3)
    if kind == "hand_pairs_collide":
        # keys collide pairwise on every position
        tab = {}
        ks = list(keys)
        for i in range(0, len(ks), 2):
            vals = [rng.randint(0, 10**9) for _ in range(4)]
            tab[ks[i]] = vals
            if i + 1 < len(ks):
                tab[ks[i + 1]] = vals
        return kind, TableHash(kind, tab)
    raise ValueError(kind)


# simple hashes for cuckoo: hf(key) -> int    and quotient filter: hf(key, seed) -> 32 bit int

class SimpleTable:
    def __init__(self, name, table, bits=64, salt=b""):
        self.name = name
        self.table = table
        self.bits = bits
        self.salt = salt  # non-empty: keys outside the table do NOT hash like the library default either

    def __call__(self, key, seed=0):
        if key in self.table:
            return self.table[key]
        if self.salt:
            tag = b"|b" if isinstance(key, (bytes, bytearray, memoryview)) else b"|s"  # also tells text from bytes of the same spelling
            return refimpl.fnv1a_64(to_bytes(key) + self.salt + tag, seed) & ((1 << self.bits) - 1)
        if self.bits == 32:
            return refimpl.fnv1a_32(to_bytes(key), seed)
        return refimpl.fnv1a_64(to_bytes(key), seed)

    def __repr__(self):
        return f"SimpleTable({self.name})"


# ---------------------------------------------------------------- geometries

BLOOM_RATES = [0.5, 0.4, 0.3, 0.25, 0.2, 0.1, 0.05, 0.03, 0.01, 0.005, 0.001, 1e-4, 1e-5, 1e-6, 1e-9, 1e-12, 1e-20, 1e-30]


def near_twin(est, rate, m, k):
    """another est_elements (same rate) whose filter has a DIFFERENT number of bits but the same number of bytes and hashes, or None"""
    for d in (1, -1, 2, -2, 3, -3, 4, -4, 5, 6, 7, 8):
        e2 = est + d
        if e2 < 1:
            continue
        mk = refimpl.bloom_sizing_simple(e2, refimpl.f32(rate))
        if mk and mk[0] != m and (mk[0] + 7) // 8 == (m + 7) // 8 and mk[1] == k:
            return e2, mk[0]
    return None


def same_geometry_pair(rng, max_bits=50000):
    """(n, p, n2, p2, (bits, hashes)): two DIFFERENT requests that derive the same geometry (compatible operands), or None"""
    for _ in range(200):
        n = rng.randint(2, 400)
        p = rng.choice([0.3, 0.2, 0.1, 0.065, 0.05, 0.03, 0.01, 0.004, 0.001])
        mk = refimpl.bloom_sizing_simple(n, p)
        if not mk or mk[1] < 1 or mk[0] > max_bits:
            continue
        for _ in range(60):
            n2 = max(1, n + rng.choice([-2, -1, 1, 2, 3]))
            p2 = p * rng.uniform(0.6, 1.6)
            if 0 < p2 < 0.7 and n2 != n and refimpl.bloom_sizing_simple(n2, p2) == mk:
                return n, p, n2, p2, mk
    return None


_EDGE = []


def f32_edge_requests():
    """(est_elements, rate as text) whose geometry CHANGES when the rate is not narrowed to single precision first (the documented sizing
    narrows it, the file footer stores it narrowed): a request given with a full-precision rate - whatever its numeric type - must still get,
    and keep over every reload, the geometry of the narrowed rate.  Found once per process by comparing the two sizings."""
    if not _EDGE:
        import math

        def quick(n, p):
            m = math.ceil((-n * math.log(p)) / 0.4804530139182)
            return m, int(round(0.6931471805599453 * m / n))

        for text in ("0.001", "0.05", "0.01", "0.3", "0.0001"):
            rate = float(text)
            for n in list(range(3000, 14000)) + list(range(100000, 103000)):
                if quick(n, refimpl.f32(rate)) != quick(n, rate) and refimpl.bloom_sizing_simple(n, rate):
                    _EDGE.append((n, text))
    return _EDGE


def spell_rate(rng, text):
    """the same rate as a float, a decimal.Decimal or a fractions.Fraction (all are numbers.Number instances the constructors accept)"""
    from decimal import Decimal
    from fractions import Fraction

    how = rng.choice(["float", "Decimal", "Fraction"])
    return how, {"float": float(text), "Decimal": Decimal(text), "Fraction": Fraction(text)}[how]


_ALIGNED = {}


def block_aligned_geometries(counting=False):
    """(est_elements, rate, bits, hashes) whose array length (bytes for a plain filter, cells for a counting one) is an exact multiple
    of 512 - and so of whatever power-of-two block size <= 512, or 1024 / 4096 / ... for some of them - found once per process"""
    if counting not in _ALIGNED:
        import math

        out = []
        for rate in (0.01, 0.05, 0.001):
            c = -math.log(refimpl.f32(rate)) / (math.log(2) ** 2)
            for n in range(60, 9000 if counting else 70000):
                m = math.ceil(n * c)
                length = m if counting else (m + 7) // 8
                if length % 512 == 0 and (length % 4096 == 0 or n % 7 == 0):
                    mk = refimpl.bloom_sizing_simple(n, rate)
                    if mk and (mk[0] if counting else (mk[0] + 7) // 8) % 512 == 0:
                        out.append((n, rate, mk[0], mk[1]))
            # a few much larger ones, found directly: lengths that are exact multiples of 64 KiB
            for length in (65536, 131072, 196608, 262144) if not counting else (65536,):
                hi = length * (1 if counting else 8)
                for n in range(int((hi - 8) / c) - 1, int(hi / c) + 2):
                    mk = refimpl.bloom_sizing_simple(n, rate) if n > 0 else None
                    if mk and (mk[0] if counting else (mk[0] + 7) // 8) == length:
                        out.append((n, rate, mk[0], mk[1]))
        _ALIGNED[counting] = out
    return _ALIGNED[counting]


def aligned_geometry(rng, counting=False, max_len=None):
    """one block-aligned geometry; two thirds of the draws have a length that is an exact multiple of 4096"""
    g = [x for x in block_aligned_geometries(counting) if max_len is None or (x[2] if counting else (x[2] + 7) // 8) <= max_len]
    big = [x for x in g if (x[2] if counting else (x[2] + 7) // 8) % 4096 == 0]
    return rng.choice(big if big and rng.random() < 0.66 else g)


def bloom_geometry(rng, small=True, max_bits=60000):
    """(est_elements, rate, bits, hashes) accepted by the constructor (screened with the independent sizing);
    number_bits mod 8 spreads over all residues"""
    for _ in range(300):
        if small:
            est = rng.choice([1, 2, 3, 4, 5, 6, 7, 8, 9, 10, 11, 13, 16, 17, 25, 30, 50])
        else:
            est = rng.choice([1, 2, 3, 5, 10, 50, 100, 333, 1000])
        r = rng.random()
        if r < 0.7:
            rate = rng.choice(BLOOM_RATES)
        elif r < 0.9:
            rate = round(rng.uniform(0.001, 0.6), rng.randint(2, 6))
        else:
            rate = 2.0 ** -rng.randint(1, 30)
        if rate <= 0:
            continue
        mk = refimpl.bloom_sizing_simple(est, rate)
        if mk is None or mk[1] < 1 or mk[0] > max_bits:
            continue
        return est, rate, mk[0], mk[1]
    return 10, 0.05, 63, 4


def narrow32(x):
    return struct.unpack("f", struct.pack("f", x))[0]


class GenerousHash:
    """hand-written strategy returning more values than the depth asked for; Bloom filters read only the first number_hashes of them"""

    def __init__(self, base, surplus=3):
        self.base, self.surplus = base, surplus

    def __call__(self, key, depth=1):
        return list(self.base(key, depth + self.surplus))

    def __repr__(self):
        return "GenerousHash"


class DerivedHash:
    """a strategy that agrees with `base` on part of the answer and differs on the rest (hand-written, pure):
    mode 'first_only' : same first value, different values afterwards (like a legacy chained default next to the seeded default)
    mode 'all_but_last': same values except the one at index `depth_at`-1"""

    def __init__(self, base, mode, depth_at=None):
        self.base, self.mode, self.depth_at = base, mode, depth_at

    def __call__(self, key, depth=1):
        vals = list(self.base(key, depth))
        if self.mode == "first_only":
            return vals[:1] + [(v ^ 0x5BD1E995) + 1 for v in vals[1:]]
        if self.depth_at is not None and depth >= self.depth_at:
            vals[self.depth_at - 1] = (vals[self.depth_at - 1] ^ 0x9E3779B9) + 1
        return vals

    def __repr__(self):
        return f"DerivedHash({self.mode})"
