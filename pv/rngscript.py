"""Scripted randomness: the library's internal random choices ("schedules") made controllable from outside.

install() replaces random.choice / randint / randrange / random / shuffle / sample / choices / getrandbits in the stdlib module
(before `probables` is imported, so `from random import choice` in a refactored library is caught too).  While a script is
active every decision is taken from the script (then from a fallback: constant 0 or a seeded generator) and recorded as
(value, arity).  explore() is a DFS over decision prefixes that re-executes a run once per distinct resolution.
"""
import random as _random

_ORIG = {}


class _State:
    def __init__(self):
        self.active = False
        self.script = []
        self.pos = 0
        self.trace = []
        self.fallback = None  # None -> 0, else a random.Random

    def decide(self, n):
        if n <= 0:
            raise ValueError("empty range for scripted decision")
        if self.pos < len(self.script):
            v = self.script[self.pos] % n
        elif self.fallback is not None:
            v = self.fallback.randrange(n)
        else:
            v = 0
        self.pos += 1
        self.trace.append((v, n))
        return v


S = _State()


def _choice(seq):
    if not S.active:
        return _ORIG["choice"](seq)
    return seq[S.decide(len(seq))]


def _randrange(start, stop=None, step=1):
    if not S.active:
        return _ORIG["randrange"](start, stop, step) if stop is not None else _ORIG["randrange"](start)
    if stop is None:
        start, stop = 0, start
    n = len(range(start, stop, step))
    return start + step * S.decide(n)


def _randint(a, b):
    if not S.active:
        return _ORIG["randint"](a, b)
    return a + S.decide(b - a + 1)


def _random_():
    if not S.active:
        return _ORIG["random"]()
    return S.decide(1024) / 1024.0


def _shuffle(x):
    if not S.active:
        return _ORIG["shuffle"](x)
    for i in reversed(range(1, len(x))):
        j = S.decide(i + 1)
        x[i], x[j] = x[j], x[i]


def _sample(population, k, **kw):
    if not S.active:
        return _ORIG["sample"](population, k, **kw)
    pool = list(population)
    out = []
    for _ in range(k):
        out.append(pool.pop(S.decide(len(pool))))
    return out


def _choices(population, weights=None, *, cum_weights=None, k=1):
    if not S.active:
        return _ORIG["choices"](population, weights, cum_weights=cum_weights, k=k)
    return [population[S.decide(len(population))] for _ in range(k)]


def _getrandbits(k):
    if not S.active:
        return _ORIG["getrandbits"](k)
    return S.decide(1 << min(k, 10))


def install():
    if _ORIG:
        return
    for name, fn in (("choice", _choice), ("randrange", _randrange), ("randint", _randint), ("random", _random_),
                     ("shuffle", _shuffle), ("sample", _sample), ("choices", _choices), ("getrandbits", _getrandbits)):
        _ORIG[name] = getattr(_random, name)
        setattr(_random, name, fn)


def start(script, fallback=None):
    S.active = True
    S.script = list(script)
    S.pos = 0
    S.trace = []
    S.fallback = fallback


def stop():
    S.active = False
    return list(S.trace)


class Exploration:
    def __init__(self):
        self.runs = 0
        self.exhaustive = False
        self.decisions = 0
        self.max_depth = 0
        self.sampled = 0


def explore(run, max_leaves, sample_rng=None, extra_samples=0, max_arity=64):
    """DFS over all resolutions of the scripted decisions of run() (a callable executing one complete history and checking it).
    Stops after max_leaves runs; if the tree was not exhausted, `extra_samples` further runs use random resolutions.
    Returns an Exploration.  run() receives nothing; it must create its objects afresh every time."""
    ex = Exploration()
    stack = [[]]
    while stack and ex.runs < max_leaves:
        prefix = stack.pop()
        start(prefix)
        try:
            run()
        finally:
            trace = stop()
        ex.runs += 1
        ex.decisions += len(trace)
        ex.max_depth = max(ex.max_depth, len(trace))
        for i in range(len(trace) - 1, len(prefix) - 1, -1):
            v, n = trace[i]
            if n > max_arity:
                continue
            base = [t[0] for t in trace[:i]]
            for alt in range(n - 1, 0, -1):
                stack.append(base + [alt])
    ex.exhaustive = not stack
    if not ex.exhaustive and sample_rng is not None:
        for _ in range(extra_samples):
            start([], fallback=sample_rng)
            try:
                run()
            finally:
                trace = stop()
            ex.sampled += 1
            ex.decisions += len(trace)
            ex.max_depth = max(ex.max_depth, len(trace))
    return ex
