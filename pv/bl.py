"""helpers shared by the Bloom-family workloads (construction, export/load channels, bit arrays)"""
import io
import os


def kw_hash(hf):
    return {} if hf is None else {"hash_function": hf}


def bits_of(f):
    """the cell array of a Bloom filter through the public `bloom` property (bytes for bit filters)"""
    b = f.bloom
    n = f.bloom_length
    return bytes(b[:n])


def cells_of(f):
    """list of ints (counting filters: counters; bit filters: bytes)"""
    return list(f.bloom[: f.bloom_length])


def subset_bits(old: bytes, new: bytes) -> bool:
    if len(old) != len(new):
        return False
    return all((o & ~n) == 0 for o, n in zip(old, new))


_LEFT_OVER = []


def _left_over():
    if not _LEFT_OVER:
        import probables as P

        old = P.BloomFilter(40000, 0.001)  # ~70 KiB: longer than almost everything the workloads export
        for i in range(50):
            old.add(f"left-over-{i}")
        _LEFT_OVER.append(bytes(old))
    return _LEFT_OVER[0]


class Scratch:
    """unique file names inside the per-process scratch directory"""

    def __init__(self, ctx, case):
        self.ctx = ctx
        self.dir = os.path.join(ctx.tmpdir(), f"{case.workload}-{case.index}")
        os.makedirs(self.dir, exist_ok=True)
        self.other = os.path.join(self.dir, "elsewhere")
        os.makedirs(self.other, exist_ok=True)
        self.n = case.index % 3  # (which of the names handed out are pre-populated differs from case to case: see path())

    def path(self, stem="f", sub=None):
        """a unique file name.  Every third name already HOLDS something when it is handed out - a longer, well-formed export of an
        unrelated larger Bloom filter, as left behind by an earlier run of a program: whoever writes to a path (export, on-disk
        construction, the harness itself) must replace what is there completely."""
        self.n += 1
        d = self.dir if sub is None else os.path.join(self.dir, sub)
        os.makedirs(d, exist_ok=True)
        p = os.path.join(d, f"{stem}{self.n}.bin")
        if self.n % 3 == 2:
            with open(p, "wb") as fh:
                fh.write(_left_over())
        return p

    def cleanup(self):
        import shutil

        shutil.rmtree(self.dir, ignore_errors=True)


def export_bytes_via(f, channel, scratch):
    """export through one of the channels that yield raw bytes; returns bytes"""
    if channel == "bytes":
        return bytes(f)
    if channel == "path":
        p = scratch.path("exp")
        f.export(p)
        with open(p, "rb") as fh:
            return fh.read()
    if channel == "pathlib":
        from pathlib import Path

        p = scratch.path("expl")
        f.export(Path(p))
        with open(p, "rb") as fh:
            return fh.read()
    if channel == "fileobj":
        bio = io.BytesIO()
        f.export(bio)
        return bio.getvalue()
    if channel == "realfile":
        p = scratch.path("expf")
        with open(p, "wb") as fh:
            f.export(fh)
        with open(p, "rb") as fh:
            return fh.read()
    raise ValueError(channel)


def reachable_bloom(P, rng, est, rate, hf, keys, counting=False, amounts=(1,)):
    """a Bloom filter in a reachable state: fed by add(), possibly the result of a union / intersection with another fed
    filter (its element count is then an estimate, possibly 0 with bits set), possibly reloaded or cleared and re-fed.
    Returns (filter, description list)."""
    cls = P.CountingBloomFilter if counting else P.BloomFilter

    def fed(n):
        f = cls(est, rate, **kw_hash(hf))
        ks = [rng.choice(keys) for _ in range(n)]
        for k in ks:
            if counting:
                f.add(k, rng.choice(amounts))
            else:
                f.add(k)
        return f, ks

    f, ks = fed(rng.randint(0, 10))
    desc = [("add", ks)]
    for _ in range(rng.choice([0, 0, 1, 1, 2])):
        r = rng.random()
        if r < 0.3:
            g, ks2 = fed(rng.randint(0, 6))
            u = f.union(g)
            if u is not None and u.elements_added >= 0:
                f = u
                desc.append(("union", ks2))
        elif r < 0.65:
            g, ks2 = fed(rng.randint(0, 4))
            for k in ks[: rng.randint(0, 3)]:
                g.add(k)
            i = f.intersection(g)
            if i is not None and i.elements_added >= 0:
                f = i
                desc.append(("intersection", ks2))
        elif r < 0.8:
            if f.elements_added >= 0:
                f = cls.frombytes(bytes(f), **kw_hash(hf)) if rng.random() < 0.5 else cls(hex_string=f.export_hex(), **kw_hash(hf))
                desc.append(("reload",))
        elif r < 0.9:
            f.clear()
            desc.append(("clear",))
        else:
            k = rng.choice(keys)
            f.add(k)
            desc.append(("add", [k]))
    return f, desc


def noise_reads(ctx, rng, f, keys, p=0.3):
    """read-only calls with arbitrary arguments interleaved into a mutation history (before a mutator): look-ups, hash computations
    with an EXPLICIT depth other than the structure's own, string / byte conversions.  They must not influence what the following
    calls do (a memo filled by a query is only visible through the next mutation)."""
    if rng.random() >= p or not keys:
        return
    for _ in range(rng.randint(1, 3)):
        k = rng.choice(keys)
        c = rng.randrange(7)
        ctx.count("interleaved_read_only_calls")
        if c == 0 and hasattr(f, "hashes"):
            f.hashes(k, rng.randint(1, 9))
        elif c == 1 and hasattr(f, "hashes"):
            f.hashes(rng.choice(keys))
            f.hashes(k, 1)
        elif c == 2:
            f.check(k)
        elif c == 3:
            str(f)
        elif c == 4:
            if getattr(f, "elements_added", 0) >= 0:  # a completely set union result (element estimate -1) cannot be exported: not a finding
                bytes(f)
        elif c == 5:
            k in f
        elif hasattr(f, "check_alt") and hasattr(f, "hashes"):
            f.check_alt(f.hashes(k))


_HBUF = []


def alt_arg(ctx, hashes):
    """the hash list handed to an *_alt method: half of the time the caller's ONE scratch list, refilled in place for every call (the
    library must neither keep a reference to it nor compare later arguments with it by identity), otherwise a fresh list.
    Returns (argument, copy) - the copy is for arg_unchanged()."""
    hashes = list(hashes)
    ctx._alt_calls = getattr(ctx, "_alt_calls", 0) + 1
    if (ctx._alt_calls // 4) % 2:  # runs of four calls with the scratch list, four with fresh lists
        _HBUF[:] = hashes
        ctx.count("alt_calls_with_the_reused_scratch_list")
        return _HBUF, hashes
    return list(hashes), hashes


def arg_unchanged(ctx, arg, copy, what):
    """a call must not modify the hash list it was given"""
    if list(arg) != copy:
        ctx.fail(f"{what} modified the hash list it was given", before=copy[:6], after=list(arg)[:6])


def dense_fill(rng, targets, m, k, share=0.6):
    """sets (through add_alt with hand-made hash lists) one random bit in every byte of the array in a random subset of `targets`
    (each a list of filters that must receive the same additions), so that no byte of a LARGE array is all zero in every operand:
    a set operation that drops a byte, a block or a tail then shows in the bits.  targets e.g. [[A, AB], [B, AB]]."""
    nbytes = (m + 7) // 8
    for group in targets:
        pos = [8 * b + rng.randrange(min(8, m - 8 * b)) for b in range(nbytes) if rng.random() < share]
        for i in range(0, len(pos), k):
            grp = pos[i:i + k]
            grp = grp + grp[: k - len(grp)] if len(grp) < k else grp
            while len(grp) < k:
                grp.append(grp[0])
            for flt in group:
                flt.add_alt(list(grp))


class Choke:
    """a binary target that takes a few writes and then fails like a full disk"""

    def __init__(self, good_writes):
        self.left = good_writes

    def write(self, data):
        if self.left <= 0:
            raise OSError(28, "No space left on device")
        self.left -= 1
        return len(data)


def refused_export(ctx, rng, f, sc):
    """export to a target that REFUSES it (a closed / text-mode / read-only handle, a path in a directory that does not exist, a device that
    fills up): the call fails - and, being a read of the structure, leaves it exactly as it was (whatever is compared afterwards)"""
    import io
    import os

    how = rng.choice(["closed handle", "text-mode handle", "read-only handle", "path in a missing directory", "device full at once", "device full after a few writes"])
    p = sc.path("refuse")
    opened = None
    if how == "closed handle":
        target = io.BytesIO()
        target.close()
    elif how == "text-mode handle":
        target = opened = open(p, "w")
    elif how == "read-only handle":
        with open(p, "wb") as fh:
            fh.write(b"x")
        target = opened = open(p, "rb")
    elif how == "path in a missing directory":
        target = os.path.join(sc.dir, "no-such-directory", "x.bin")
    else:
        target = Choke(0 if how.endswith("once") else rng.randint(1, 3))
    try:
        f.export(target)
        ctx.count("exports_to_a_refusing_target_that_went_through")
    except Exception:
        ctx.count("refused_exports")
    finally:
        if opened is not None:
            opened.close()
    return how
