"""pytest plugin (-p pv.pytest_contracts): runs the repository's own cuckoo tests with the C15 table invariant attached to the
real classes.  Every instance is judged (auto-registration on first sight; the hash function is the one the instance was
constructed with).  Writes a JSON summary to $PV_CONTRACTS_OUT."""
import json
import os
import sys

sys.path.insert(0, os.path.dirname(os.path.dirname(os.path.realpath(__file__))))

from pv import rngscript  # noqa: E402

rngscript.install()
from pv import repo  # noqa: E402

repo.load()
from pv import contracts  # noqa: E402

FAILS = []


def _called_from_library():
    """True when the public call / property read that triggered the invariant was made by library code (e.g. a private loader
    reading `self.capacity` while it rebuilds the table): such a state is transient, not a quiescent point"""
    f = sys._getframe(2)
    while f is not None:
        fn = f.f_code.co_filename
        if "icontract" in fn or fn.endswith("pytest_contracts.py") or fn.endswith(os.path.join("pv", "contracts.py")):
            f = f.f_back
            continue
        return repo.in_library(fn)
    return False


def _auto(self):
    contracts.EVAL["evaluations"] += 1
    if _called_from_library():
        contracts.EVAL["skipped_transient"] += 1
        return True
    reg = contracts.REG.get(id(self))
    if reg is None or reg.get("obj") is not self:
        hf = getattr(self, "_CuckooFilter__hash_func", None)
        if hf is None:
            contracts.EVAL["unregistered_instances"] += 1
            return True
        from probables.hashes import fnv_1a

        counting = type(self).__name__ == "CountingCuckooFilter"
        try:
            contracts.register(self, None if hf is fnv_1a else hf, self.expansion_rate, counting)
        except Exception:
            return True
        reg = contracts.REG[id(self)]
    reg["rate"] = self.expansion_rate
    contracts.EVAL["judged"] += 1
    try:
        problems = contracts.table_problems(self, reg)
    except Exception as e:  # a half-constructed object (invariant after a failing __init__)
        contracts.EVAL["unjudgeable"] += 1
        return True
    if problems:
        FAILS.append(problems[:3])
        contracts.LAST["problems"] = problems
        return False
    return True


def pytest_configure(config):
    contracts.well_formed = _auto
    ok = contracts.install()
    if not ok:
        FAILS.append(["icontract unavailable"])


def pytest_sessionfinish(session, exitstatus):
    out = os.environ.get("PV_CONTRACTS_OUT")
    if out:
        with open(out, "w") as f:
            json.dump({"evaluations": contracts.EVAL["evaluations"], "judged": contracts.EVAL["judged"], "failures": FAILS[:10],
                       "exitstatus": int(exitstatus)}, f)
