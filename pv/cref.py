"""Builds and drives the C reference (cref/ppref.c) compiled with ASan+UBSan."""
import os
import subprocess

from . import repo
from .core import Inconclusive

SRC = os.path.join(repo.VERIF_ROOT, "cref", "ppref.c")
BIN = os.path.join(repo.VERIF_ROOT, "build", "ppref")
CFLAGS = ["-O1", "-g", "-fsanitize=address,undefined", "-fno-sanitize-recover=all", "-fno-omit-frame-pointer"]


def build():
    os.makedirs(os.path.dirname(BIN), exist_ok=True)
    if os.path.exists(BIN) and os.path.getmtime(BIN) >= os.path.getmtime(SRC):
        return BIN
    tmp = BIN + f".{os.getpid()}.tmp"
    r = subprocess.run(["clang"] + CFLAGS + ["-o", tmp, SRC, "-lm"], capture_output=True, text=True)
    if r.returncode != 0:
        raise Inconclusive(f"C reference failed to build: {r.stderr[-400:]}")
    os.replace(tmp, BIN)
    return BIN


def hexkey(key):
    b = key if isinstance(key, (bytes, bytearray)) else key.encode("utf-8")
    return b.hex() if len(b) else "-"


class SanitizerReport(Exception):
    pass


class CRef:
    def __init__(self):
        self.bin = build()
        self.p = None
        self.commands = 0
        self._start()

    def _start(self):
        env = dict(os.environ)
        env["ASAN_OPTIONS"] = "abort_on_error=0:halt_on_error=1:detect_leaks=1:exitcode=99"
        env["UBSAN_OPTIONS"] = "halt_on_error=1:print_stacktrace=1:exitcode=98"
        self.p = subprocess.Popen([self.bin], stdin=subprocess.PIPE, stdout=subprocess.PIPE, stderr=subprocess.PIPE,
                                  text=True, bufsize=1, env=env)

    def ask(self, line):
        """one command, one answer line.  A sanitizer report (process death) raises SanitizerReport."""
        self.commands += 1
        try:
            self.p.stdin.write(line + "\n")
            self.p.stdin.flush()
            ans = self.p.stdout.readline()
        except BrokenPipeError:
            ans = ""
        if not ans:
            try:
                err = self.p.stderr.read()
            except Exception:
                err = ""
            rc = self.p.wait()
            self._start()
            raise SanitizerReport(f"C reference died (exit {rc}) on `{line[:200]}`: {err[-1500:]}")
        return ans.rstrip("\n")

    def ask_many(self, lines, chunk=200):
        out = []
        for i in range(0, len(lines), chunk):
            part = lines[i:i + chunk]
            self.commands += len(part)
            try:
                self.p.stdin.write("\n".join(part) + "\n")
                self.p.stdin.flush()
                for ln in part:
                    ans = self.p.stdout.readline()
                    if not ans:
                        raise BrokenPipeError()
                    out.append(ans.rstrip("\n"))
            except BrokenPipeError:
                try:
                    err = self.p.stderr.read()
                except Exception:
                    err = ""
                rc = self.p.wait()
                self._start()
                raise SanitizerReport(f"C reference died (exit {rc}) in a batch starting `{part[0][:120]}`: {err[-1500:]}")
        return out

    def close(self):
        """close stdin, wait; a leak / late sanitizer report shows as a non-zero exit"""
        if self.p is None:
            return 0, ""
        try:
            self.p.stdin.close()
        except Exception:
            pass
        err = self.p.stderr.read()
        rc = self.p.wait()
        self.p = None
        return rc, err
