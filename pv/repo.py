"""Import discipline: the library under test is imported from VERIF_REPO (default /repo),
never from an installed copy, and never from stale bytecode."""
import os
import sys

REPO_ROOT = os.path.realpath(os.environ.get("VERIF_REPO", "/repo"))
VERIF_ROOT = os.path.dirname(os.path.dirname(os.path.realpath(__file__)))
_probables = None


class WrongImportRoot(Exception):
    pass


def load():
    """import probables from REPO_ROOT and check that every module really comes from there"""
    global _probables
    if _probables is not None:
        return _probables
    sys.dont_write_bytecode = True
    if REPO_ROOT in sys.path:
        sys.path.remove(REPO_ROOT)
    sys.path.insert(0, REPO_ROOT)
    for name in [m for m in sys.modules if m == "probables" or m.startswith("probables.")]:
        del sys.modules[name]
    import probables  # noqa

    import probables.blooms.bloom  # noqa
    import probables.blooms.countingbloom  # noqa
    import probables.blooms.expandingbloom  # noqa
    import probables.countminsketch.countminsketch  # noqa
    import probables.cuckoo.cuckoo  # noqa
    import probables.cuckoo.countingcuckoo  # noqa
    import probables.quotientfilter.quotientfilter  # noqa
    import probables.hashes  # noqa
    import probables.utilities  # noqa

    for name, mod in list(sys.modules.items()):
        if name == "probables" or name.startswith("probables."):
            f = getattr(mod, "__file__", None)
            if f is None:
                continue
            if not os.path.realpath(f).startswith(REPO_ROOT + os.sep):
                raise WrongImportRoot(f"{name} imported from {f}, expected under {REPO_ROOT}")
    _probables = probables
    return probables


def lib_prefix():
    return os.path.join(REPO_ROOT, "probables") + os.sep


def in_library(filename):
    try:
        return os.path.realpath(filename).startswith(lib_prefix())
    except Exception:
        return False


def add_deps():
    d = os.path.join(VERIF_ROOT, ".deps")
    if d not in sys.path:
        sys.path.append(d)
