"""./vcheck <ID> --tier quick|thorough [--replay file] [--shards N] [--inline]"""
import argparse
import importlib
import json
import os
import subprocess
import sys
import tempfile
import time

from . import core, repo, rngscript

rngscript.install()  # before `probables` is imported anywhere (catches `from random import choice` too)

BUDGET = {"quick": 150.0, "thorough": 3000.0}  # per-shard wall budget (truncation, never a verdict)


def load_prop(pid):
    mod = importlib.import_module(f"pv.props.{pid.lower()}")
    return mod.PROP


def validate_evidence(ev):
    try:
        import jsonschema  # not available beside the repo's interpreter normally
    except Exception:
        jsonschema = None
    schema_path = "/root/.vp/EVIDENCE.schema.json"
    if jsonschema is not None and os.path.exists(schema_path):
        with open(schema_path) as f:
            jsonschema.validate(ev, json.load(f))
        return
    # minimal structural validation (same required keys as the schema)
    for k in ("property_id", "tier", "seed", "level", "coverage", "wall_s"):
        assert k in ev, k
    cov = ev["coverage"]
    assert isinstance(cov.get("evaluations"), int) and cov["evaluations"] >= 1
    assert isinstance(cov.get("distinct_nontrivial"), int)
    assert isinstance(cov.get("samples"), list)
    assert isinstance(cov.get("rule"), str)


def child_main(args):
    prop = load_prop(args.prop)
    i, n = (int(x) for x in args.shard.split("/"))
    ctx = core.Ctx(prop, args.tier, args.seed, shard=(i, n))
    try:
        repo.load()
    except Exception as e:
        ctx.inconclusive.append(f"import root: {e}")
        with open(args.partial, "w") as f:
            json.dump(core.partial_dump(ctx), f)
        return 0
    core.run_shard(ctx, args.budget)
    with open(args.partial, "w") as f:
        json.dump(core.partial_dump(ctx), f)
    return 0


def replay_main(args):
    with open(args.replay) as f:
        rp = json.load(f)
    pid = rp["property"]
    prop = load_prop(pid)
    ctx = core.Ctx(prop, rp["tier"], int(rp["seed"]), replaying=True)
    repo.load()
    if prop.setup:
        prop.setup(ctx)
    wl = [w for w in prop.workloads if w.name == rp["workload"]][0]
    try:
        core.run_one(ctx, wl, int(rp["index"]))
    except core.StopRun:
        pass
    if ctx.violations:
        return core.EXIT_VIOLATION
    if ctx.harness_errors:
        print("HARNESS-ERROR", ctx.harness_errors[0])
        return core.EXIT_INCONCLUSIVE
    print(f"replay of {args.replay}: no violation reproduced (known-finding hits: {dict(ctx.known_hits)})")
    return core.EXIT_HELD


def main(argv=None):
    ap = argparse.ArgumentParser()
    ap.add_argument("prop")
    ap.add_argument("--tier", default=os.environ.get("VERIF_TIER", "quick"), choices=["quick", "thorough"])
    ap.add_argument("--seed", type=int, default=int(os.environ.get("VERIF_SEED", "0") or 0))
    ap.add_argument("--replay")
    ap.add_argument("--shard")
    ap.add_argument("--partial")
    ap.add_argument("--shards", type=int)
    ap.add_argument("--budget", type=float)
    ap.add_argument("--inline", action="store_true", help="run in this process (debugging)")
    ap.add_argument("--no-evidence", action="store_true")
    args = ap.parse_args(argv)
    args.prop = args.prop.upper()
    if args.budget is None:
        args.budget = float(os.environ.get("VERIF_BUDGET", BUDGET[args.tier]))

    if args.replay:
        return replay_main(args)
    if args.shard:
        return child_main(args)

    t0 = time.time()
    prop = load_prop(args.prop)
    try:
        repo.load()
    except Exception as e:
        print(f"INCONCLUSIVE property={args.prop} reason=import-root: {e}")
        return core.EXIT_INCONCLUSIVE

    nshards = args.shards or prop.shards[args.tier]
    parts = []
    failures = []
    if args.inline:
        ctx = core.Ctx(prop, args.tier, args.seed)
        core.run_shard(ctx, args.budget)
        parts.append(json.loads(json.dumps(core.partial_dump(ctx))))
    else:
        tmpd = tempfile.mkdtemp(prefix="pv-part-")
        procs = []
        for i in range(nshards):
            pf = os.path.join(tmpd, f"part{i}.json")
            cmd = [sys.executable, "-m", "pv.cli", args.prop, "--tier", args.tier, "--seed", str(args.seed),
                   "--shard", f"{i}/{nshards}", "--partial", pf, "--budget", str(args.budget)]
            procs.append((i, pf, subprocess.Popen(cmd, cwd=repo.VERIF_ROOT)))
        deadline = time.time() + args.budget * 1.5 + 120
        for i, pf, p in procs:
            try:
                rc = p.wait(timeout=max(1.0, deadline - time.time()))
            except subprocess.TimeoutExpired:
                p.kill()
                failures.append(f"shard {i} exceeded the wall-clock watchdog")
                continue
            if rc != 0 or not os.path.exists(pf):
                failures.append(f"shard {i} exited {rc} without a result")
                continue
            with open(pf) as f:
                parts.append(json.load(f))
        for i, pf, p in procs:
            try:
                os.remove(pf)
            except OSError:
                pass
        try:
            os.rmdir(tmpd)
        except OSError:
            pass

    m = core.merge_partials(parts)
    wall = time.time() - t0

    reasons = list(failures) + list(m["inconclusive"])
    if m["harness_errors"]:
        reasons.append("harness error: " + m["harness_errors"][0][-800:])
    for req in prop.required:
        if m["counters"].get(req, 0) <= 0:
            reasons.append(f"deciding monitor never reached: counter {req} == 0")

    observed = {k: v for k, v in sorted(m["counters"].items())}
    cov = {
        "evaluations": int(m["evaluations"]),
        "distinct_nontrivial": len(m["distinct"]),
        "rule": prop.rule,
        "samples": m["samples"],
        "observed": observed,
        "observed_sets": m["sets"],
        "observed_maxima": m["maxima"],
        "shards": nshards,
        "truncated_by_time_budget": m["truncated"],
        "known_finding_hits": dict(m["known_hits"]),
    }
    cov.update(m["state_evidence"])
    ex = [w.name for w in prop.workloads if w.exhaustive]
    if ex:
        cov["exhaustive_workloads"] = {name: bool(m["exhaustive_done"][name]) for name in ex if name in m["exhaustive_done"]}
        cov["exhaustive"] = bool(cov["exhaustive_workloads"]) and all(cov["exhaustive_workloads"].values()) and len(ex) == len(prop.workloads)
    if prop.finish:
        try:
            prop.finish(cov, m, args.tier)
        except core.Inconclusive as e:
            reasons.append(str(e))
    ev = {
        "property_id": args.prop,
        "tier": args.tier,
        "seed": args.seed,
        "level": prop.level,
        "coverage": cov,
        "assumptions": prop.assumptions,
        "wall_s": round(wall, 2),
        "violations": len(m["violations"]),
    }
    if not args.no_evidence:
        os.makedirs(os.path.join(repo.VERIF_ROOT, "evidence"), exist_ok=True)
        try:
            validate_evidence(ev)
        except Exception as e:
            reasons.append(f"evidence does not validate: {e}")
        with open(os.path.join(repo.VERIF_ROOT, "evidence", f"{args.prop}.json"), "w") as f:
            json.dump(ev, f, indent=1, sort_keys=True)

    for fid, n in sorted(m["known_hits"].items()):
        exm = m["known_examples"].get(fid, {})
        print(f"KNOWN-FINDING: property={args.prop} {fid}: {exm.get('what', '')} (reached {n} times)")

    if m["violations"]:
        # the VIOLATION lines were printed by the shards as they were found; repeat a summary
        for v in m["violations"][:10]:
            print(f"VIOLATION property={args.prop} replay={v['replay']}")
        print(f"{args.prop} {args.tier}: {len(m['violations'])} violation(s) in {m['evaluations']} cases, {wall:.1f}s")
        return core.EXIT_VIOLATION
    if reasons:
        print(f"INCONCLUSIVE property={args.prop} reason={reasons[0]}")
        for r in reasons[1:4]:
            print(f"  also: {r}")
        return core.EXIT_INCONCLUSIVE
    print(f"{args.prop} {args.tier}: held on {m['evaluations']} cases "
          f"({len(m['distinct'])} distinct non-trivial, {m['counters'].get('oracle_evaluations', 0)} oracle evaluations), {wall:.1f}s")
    return core.EXIT_HELD


if __name__ == "__main__":
    sys.exit(main())
