"""Shared cuckoo-filter workload machinery: configurations, key universes, a fingerprint-level model and a history runner
with pluggable oracles (used by C03, C08, C14, C15)."""
from collections import Counter

from . import gen, refimpl


def md5_single(key):
    """an ordinary user-supplied single-value strategy: differs from FNV-1a on every input and tells a text key from the bytes of
    the same spelling (text is hashed as UTF-16, bytes as they are) - whatever the filter hashes must always be spelled the same way"""
    import hashlib

    return int(hashlib.md5(bytes(key) if isinstance(key, (bytes, bytearray, memoryview)) else str(key).encode("utf-16-le")).hexdigest()[:16], 16)


class Cfg:
    def __init__(self, counting, capacity, bucket_size, max_swaps, finger_size, auto_expand, expansion_rate, hname, hf):
        self.counting = counting
        self.capacity = capacity
        self.bucket_size = bucket_size
        self.max_swaps = max_swaps
        self.finger_size = finger_size
        self.auto_expand = auto_expand
        self.expansion_rate = expansion_rate
        self.hname = hname
        self.hf = hf  # None = library default (fnv_1a)
        self.err_bits = None  # set: the filter is sized by ERROR RATE (fingerprint of err_bits bits, not a whole number of bytes)

    def by_error_rate(self, bits):
        """size the filter by an error rate that needs exactly `bits` fingerprint bits (rate = 1.3 * 2b/2^bits: well away from a breakpoint)"""
        self.err_bits = bits
        self.finger_size = (bits + 7) // 8
        return self

    @property
    def error_rate(self):
        # evaluated late: workloads adjust bucket_size after drawing the configuration
        return 2 * self.bucket_size / 2.0**self.err_bits * 1.3  # err_bits bits suffice (2b/2^bits <= rate), err_bits-1 do not

    def desc(self):
        return {"cls": "CountingCuckooFilter" if self.counting else "CuckooFilter", "capacity": self.capacity, "bucket_size": self.bucket_size,
                "max_swaps": self.max_swaps, "finger_bytes": self.finger_size, "auto_expand": self.auto_expand,
                "expansion_rate": self.expansion_rate, "hash": self.hname,
                **({"sized_by_error_rate": self.error_rate, "finger_bits": self.err_bits} if self.err_bits else {})}

    def ref_hash(self, key):
        """independent evaluation of the hash the filter uses for `key` (bytes/ASCII keys only)"""
        if self.hf is not None:
            return self.hf(key)
        if isinstance(key, str) and not key.isascii():
            # text is hashed code point by code point (each folded in as one value), whatever its normalisation form: two strings that
            # differ as sequences of code points are two keys
            h = refimpl.FNV64_OFFSET
            for ch in key:
                h = ((h ^ ord(ch)) * refimpl.FNV64_PRIME) % (1 << 64)
            return h
        return refimpl.fnv1a_64(gen.to_bytes(key), 0)

    def raw_fp(self, key):
        return self.ref_hash(key) & ((1 << (self.err_bits or 8 * self.finger_size)) - 1)

    def candidates(self, fp, capacity):
        h2 = self.hf(str(fp)) if self.hf is not None else refimpl.fnv1a_64(str(fp).encode("ascii"), 0)
        return fp % capacity, h2 % capacity

    def make(self, P):
        cls = P.CountingCuckooFilter if self.counting else P.CuckooFilter
        kw = {} if self.hf is None else {"hash_function": self.hf}
        if self.err_bits:
            return cls.init_error_rate(self.error_rate, capacity=self.capacity, bucket_size=self.bucket_size, max_swaps=self.max_swaps,
                                       expansion_rate=self.expansion_rate, auto_expand=self.auto_expand, **kw)
        return cls(capacity=self.capacity, bucket_size=self.bucket_size, max_swaps=self.max_swaps, expansion_rate=self.expansion_rate,
                   auto_expand=self.auto_expand, finger_size=self.finger_size, **kw)

    def reload(self, P, f, channel, scratch):
        cls = P.CountingCuckooFilter if self.counting else P.CuckooFilter
        kw = {} if self.hf is None else {"hash_function": self.hf}
        if self.err_bits:
            # the documented way back for a filter sized by error rate: the rate is re-supplied to the loader
            if channel == "bytes":
                g = cls.frombytes(bytes(f), error_rate=self.error_rate, **kw)
            else:
                p = scratch.path("ck")
                f.export(p)
                g = cls.load_error_rate(self.error_rate, p, **kw)
        elif channel == "bytes":
            # every third time the image is handed over as a bytearray / memoryview; a loader that REFUSES such a buffer (TypeError) is
            # within its rights - the plain bytes are used then - but one that accepts it must load the same table
            self._n_reload = getattr(self, "_n_reload", 0) + 1
            data = bytes(f)
            g = None
            if self._n_reload % 3 == 0:
                try:
                    g = cls.frombytes(memoryview(data) if self._n_reload % 2 else bytearray(data), **kw)
                except TypeError:
                    g = None
            if g is None:
                g = cls.frombytes(data, **kw)
        else:
            p = scratch.path("ck")
            f.export(p)
            self._n_path = getattr(self, "_n_path", self.capacity + self.max_swaps) + 1  # (which form comes first differs from case to case)
            if self._n_path % 2:
                g = cls(filepath=p, **kw)
            else:
                # the ORIGINAL construction arguments repeated next to filepath= (the file wins: its table may have grown since), the
                # capacity argument sometimes replaced by a power of two or by the table's present capacity
                cap = [self.capacity, self.capacity, 1 << max(1, self.capacity.bit_length() - 1), 8, f.capacity][self._n_path // 2 % 5]
                g = cls(capacity=cap, bucket_size=self.bucket_size, max_swaps=self.max_swaps, expansion_rate=self.expansion_rate,
                        auto_expand=self.auto_expand, finger_size=self.finger_size, filepath=p, **kw)
        # what the format does not store is re-supplied
        if not self.err_bits:
            g.fingerprint_size = self.finger_size
        g.auto_expand = self.auto_expand
        g.expansion_rate = self.expansion_rate
        return g


def gen_cfg(rng, counting=None, small=True, allow_rate=True):
    counting = rng.random() < 0.5 if counting is None else counting
    capacity = rng.choice([1, 2, 2, 3, 4, 4, 5, 6, 7, 8]) if small else rng.choice([4, 8, 16, 32])
    if rng.random() < 0.12:
        capacity = rng.randint(9, 70)  # any capacity, not only the listed ones
    bucket_size = rng.choice([1, 1, 2, 2, 3, 4]) if rng.random() < 0.9 else rng.randint(5, 9)
    if rng.random() < 0.04:
        bucket_size, capacity = rng.randint(10, 40), rng.choice([1, 2, 3])  # a few WIDE buckets (a bucket is a small table of its own)
    max_swaps = rng.choice([1, 2, 2, 3, 4, 5, 6])
    finger_size = rng.choice([1, 1, 2, 3, 4])
    auto_expand = rng.random() < 0.5
    expansion_rate = rng.choice([2, 2, 2, 3, 3, 1])  # 1: a legal but non-growing rate (an "expansion" rebuilds a table of the same size)
    cfg = Cfg(counting, capacity, bucket_size, max_swaps, finger_size, auto_expand, expansion_rate, "library_default", None)
    r = rng.random()
    if allow_rate and r < 0.15:
        # 33+ bits: wider than the 4-byte slot of the export format (such a filter works in memory; exporting it is refused with OverflowError
        # as soon as a stored fingerprint does not fit)
        # (plain filter only: the counting filter keeps fingerprint and count in 32-bit cells and cannot hold wider ones at all)
        cfg.by_error_rate(rng.choice([3, 4, 5, 7, 9, 11, 12, 13, 17, 20, 31, 32] + ([] if counting else [33, 40, 43])))
    return cfg


def gen_keys(rng, cfg, n):
    """ASCII / bytes keys whose raw fingerprint is non-zero (0 is the empty-slot marker; that corner belongs to C05).
    With probability 1/3 a hand-written single-value hash is installed that packs keys into chosen buckets and makes some
    keys share a fingerprint."""
    keys = []
    i = 0
    while len(keys) < n:
        k = f"c{i}" if rng.random() < 0.8 else b"b%d" % i
        i += 1
        keys.append(k)
    if rng.random() < 0.33:
        tab = {}
        base = rng.randint(1, 200)
        for j, k in enumerate(keys):
            r = rng.random()
            if r < 0.5:
                # same primary bucket as `base` (multiples of a common modulus), distinct fingerprints
                tab[k] = base + cfg.capacity * rng.randint(0, 30) * rng.choice([1, 2, 3])
            elif r < 0.65 and j > 0:
                tab[k] = tab.get(keys[rng.randrange(j)], base)  # shares a fingerprint with an earlier key
            elif r < 0.9:
                tab[k] = rng.randint(1, 2**32 - 1)
            else:
                tab[k] = rng.choice([2**64 + rng.randint(1, 10**6), 2**80 + rng.randint(1, 999), -rng.randint(1, 10**9)])  # huge / negative hash values
        # keys outside the table (the decimal string of a fingerprint, hashed for the alternate bucket) hash unlike the library default
        cfg.hf = gen.SimpleTable("packed", tab, salt=b"|packed")
        cfg.hname = "hand_packed_buckets"
    elif rng.random() < 0.2:
        cfg.hf = md5_single
        cfg.hname = "hand_md5_single_value"
    elif rng.random() < 0.25:
        # (library default hash) a few TEXT keys beyond ASCII, among them strings that are canonically equivalent but not equal
        # (composed / decomposed / compatibility forms): distinct keys as far as the filter is concerned
        keys += rng.sample(EXOTIC_TEXT, rng.randint(1, 4))
    keys = [k for k in keys if cfg.raw_fp(k) != 0]
    return keys


EXOTIC_TEXT = ["cafe\u0301", "caf\u00e9", "\u212b", "\u00c5", "A\u030a", "\u2126", "\u03a9", "\u1100\u1161", "\uac00", "na\u00efve", "nai\u0308ve",
               "\U0001f600", "\ufb01", "fi\u200b", "\u00df", "\u1e9e"]


def with_zero_fp_keys(ctx, rng, cfg, keys, p=0.2):
    """with probability p (and only for the library's own hash, byte-sized fingerprints): the universe gets 1..3 keys whose raw fingerprint
    is 0 - the value that marks an empty slot in the export format, so the library stores another one (it documents 1).  They form ONE
    fingerprint class like any other colliding keys; keys with raw fingerprint 1 are left out so that the substitute meets no other key."""
    if cfg.hf is not None or cfg.err_bits:
        return keys
    if cfg.counting and rng.random() < 0.3:
        # (counting filter) keys with the SMALLEST fingerprints - 2, 3, 4: numbers that also occur as bin counts - among ordinary ones
        cfg.finger_size = 1
        small = [k for k in (f"s{i}" for i in range(1500)) if cfg.raw_fp(k) in (2, 3, 4)][: rng.randint(2, 4)]
        keys = [k for k in keys if cfg.raw_fp(k) != 0][: max(2, len(keys) - len(small))] + small
        rng.shuffle(keys)
        ctx.count("universes_with_fingerprints_as_small_as_bin_counts")
    if rng.random() >= p:
        return keys
    cfg.finger_size = 1
    zs = [k for k in (f"z{i}" for i in range(3000)) if cfg.raw_fp(k) == 0][: rng.randint(1, 3)]
    keys = [k for k in keys if cfg.raw_fp(k) not in (0, 1)] + zs
    rng.shuffle(keys)
    if zs:
        ctx.count("universes_with_zero_fingerprint_keys")
    return keys


def gen_history(rng, keys, n, p_remove=0.2, p_expand=0.05, p_reload=0.05, p_auto=0.03):
    ops = []
    for _ in range(n):
        r = rng.random()
        if r > 1 - p_auto:
            q = rng.random()
            ops.append(("auto", rng.random() < 0.5) if q < 0.6 else (("rate", rng.choice([1, 2, 3])) if q < 0.85 else ("badset", rng.choice([0, 5, 9, -1, 4.5]))))
        elif r < p_remove:
            ops.append(("remove", rng.choice(keys)))
        elif r < p_remove + p_expand:
            ops.append(("expand",))
        elif r < p_remove + p_expand + p_reload:
            ops.append(("reload", rng.choice(["bytes", "path"])))
        else:
            ops.append(("add", rng.choice(keys)))
            if rng.random() < 0.15:
                ops.append(ops[-1])  # the same key once more, right away (whatever the first call remembered about it is used at once)
    return ops


class Model:
    """fingerprint-level model: which fingerprints are stored (with their counts for the counting filter)"""

    def __init__(self, cfg):
        self.cfg = cfg
        self.counts = Counter()

    def present(self, key):
        return self.counts[self.cfg.raw_fp(key)] > 0

    def count(self, key):
        return self.counts[self.cfg.raw_fp(key)]

    def total(self):
        return sum(self.counts.values())

    def bins(self):
        return sum(1 for v in self.counts.values() if v > 0)


def run_history(ctx, P, cfg, keys, ops, scratch, oracle, on_new=None, stats=None):
    """executes `ops` on a fresh filter (see iter_history); returns (filter, model)"""
    last = (None, None)
    for last in iter_history(ctx, P, cfg, keys, ops, scratch, oracle, on_new=on_new, stats=stats):
        pass
    return last


def iter_history(ctx, P, cfg, keys, ops, scratch, oracle, on_new=None, stats=None):
    """generator form of run_history: yields (filter, model) once after construction and then after every call, so that several
    histories on several live filters can be interleaved by the caller.  Executes `ops` on a fresh filter; after every call `oracle(f, model, i, op, outcome, before)` is invoked, where outcome is
    ('ok', ret) or ('full', exc) and `before` is the model's Counter before the call.  on_new(f) is called for every
    newly created object (construction, reload).  Only CuckooFilterFullError is a documented failure."""
    from probables.exceptions import CuckooFilterFullError

    if not hasattr(cfg, "_auto0"):
        cfg._auto0, cfg._rate0 = cfg.auto_expand, cfg.expansion_rate
    cfg.auto_expand, cfg.expansion_rate = cfg._auto0, cfg._rate0
    f = cfg.make(P)
    if on_new:
        on_new(f)
    model = Model(cfg)
    stats = stats if stats is not None else Counter()
    yield f, model
    for i, op in enumerate(ops):
        before = Counter(model.counts)
        kind = op[0]
        cap_before = f.capacity
        if kind == "add":
            key = op[1]
            fp = cfg.raw_fp(key)
            try:
                ret = f.add(key)
                outcome = ("ok", ret)
                if cfg.counting:
                    model.counts[fp] += 1
                else:
                    model.counts[fp] = 1
            except CuckooFilterFullError as e:
                outcome = ("full", e)
                stats["failed_adds"] += 1
                # whether the NEW key got in is not fixed by the statement: follow the observation
                seen = f.check(key)
                model.counts[fp] = int(seen) if cfg.counting else (1 if seen else 0)
                if not model.counts[fp]:
                    del model.counts[fp]
        elif kind == "burst":
            # the same key many times in a row (a hot key): one model step.  Only used once the key is stored, so no call can fail.
            key, n = op[1], op[2]
            fp = cfg.raw_fp(key)
            ret = None
            if model.counts[fp] > 0:
                for _ in range(n):
                    ret = f.add(key)
                if cfg.counting:
                    model.counts[fp] += n
                stats["burst_additions"] += n
            outcome = ("ok", ret)
        elif kind == "remove":
            key = op[1]
            fp = cfg.raw_fp(key)
            ret = f.remove(key)
            outcome = ("ok", ret)
            if model.counts[fp] > 0:
                model.counts[fp] -= 1 if cfg.counting else model.counts[fp]
            if model.counts[fp] <= 0:
                del model.counts[fp]
        elif kind == "expand":
            try:
                f.expand()
                outcome = ("ok", None)
                stats["explicit_expansions"] += 1
            except CuckooFilterFullError as e:
                outcome = ("full", e)
                stats["failed_expansions"] += 1
        elif kind == "badset":
            # a setting that is REFUSED (fingerprint size outside 1..4 bytes): the refusal leaves the filter as it was
            try:
                f.fingerprint_size = op[1]
                outcome = ("accepted", None)
            except (ValueError, TypeError):
                outcome = ("ok", None)
                stats["refused_settings"] += 1
        elif kind == "rate":
            f.expansion_rate = op[1]  # the documented setter
            cfg.expansion_rate = op[1]
            outcome = ("ok", None)
        elif kind == "auto":
            f.auto_expand = op[1]  # the documented setter: switch automatic expansion on/off in the middle of a history
            cfg.auto_expand = bool(op[1])
            outcome = ("ok", None)
            stats["auto_expand_toggles"] += 1
        elif kind == "reload":
            if cfg.err_bits and cfg.err_bits > 32:
                # fingerprints wider than the 4-byte slot of the format: the export is refused (OverflowError) as soon as a stored fingerprint
                # does not fit.  If it goes through, what was loaded is looked at (monitors attached by on_new see it) but the history
                # continues on the original: a loaded table has 32-bit cells and cannot take the wider fingerprints of later additions.
                try:
                    g = cfg.reload(P, f, op[1], scratch)
                    if on_new:
                        on_new(g)
                    for k in keys:
                        g.check(k)
                    stats["wide_fingerprint_exports_loaded_and_inspected"] += 1
                except OverflowError:
                    stats["exports_refused_for_fingerprints_wider_than_the_slot"] += 1
            else:
                f = cfg.reload(P, f, op[1], scratch)
                if on_new:
                    on_new(f)
                stats["reloads"] += 1
            outcome = ("ok", None)
        else:
            raise AssertionError(op)
        if f.capacity != cap_before:
            stats["capacity_changes"] += 1
        oracle(f, model, i, op, outcome, before)
        yield f, model
