"""Independent references, written from the property statements and the documented formats.
Nothing here imports or calls the library under test."""
import struct
from decimal import Decimal, getcontext, ROUND_HALF_EVEN
from fractions import Fraction

getcontext().prec = 60

M64 = (1 << 64) - 1
M32 = (1 << 32) - 1
FNV64_OFFSET = 14695981039346656037
FNV64_PRIME = 1099511628211
FNV32_OFFSET = 0x811C9DC5
FNV32_PRIME = 0x01000193

INT32_MAX = 2**31 - 1
INT32_MIN = -(2**31)
UINT32_MAX = 2**32 - 1
INT64_MAX = 2**63 - 1
INT64_MIN = -(2**63)
UINT64_MAX = 2**64 - 1


def fnv1a_64(data: bytes, seed: int = 0) -> int:
    h = (FNV64_OFFSET + 31 * seed) % (1 << 64)
    for b in data:
        h ^= b
        h = (h * FNV64_PRIME) % (1 << 64)
    return h


def fnv1a_32(data: bytes, seed: int = 0) -> int:
    h = (FNV32_OFFSET + 31 * seed) % (1 << 32)
    for b in data:
        h ^= b
        h = (h * FNV32_PRIME) % (1 << 32)
    return h


def fnv_chain(data: bytes, depth: int):
    return [fnv1a_64(data, i) for i in range(depth)]


def fnv_chain_key(key, depth: int):
    """the default strategy for a KEY: bytes are folded in byte by byte; text is folded in code point by code point (so ASCII text hashes
    like its bytes, and text beyond ASCII like nothing else)"""
    if isinstance(key, str):
        vals = [ord(ch) for ch in key]
    else:
        vals = list(bytes(key))
    out = []
    for i in range(depth):
        h = (FNV64_OFFSET + 31 * i) % (1 << 64)
        for v in vals:
            h = ((h ^ v) * FNV64_PRIME) % (1 << 64)
        out.append(h)
    return out


# published FNV-1a test vectors (Fowler/Noll/Vo reference test suite)
FNV64_VECTORS = {b"": 0xCBF29CE484222325, b"a": 0xAF63DC4C8601EC8C, b"b": 0xAF63DF4C8601F1A5, b"c": 0xAF63DE4C8601EFF2,
                 b"foobar": 0x85944171F73967E8, b"fo": 0x08985907B541D342, b"foo": 0xDCB27518FED9D577,
                 b"chongo was here!\n": 0x46810940EFF5F915}
FNV32_VECTORS = {b"": 0x811C9DC5, b"a": 0xE40C292C, b"b": 0xE70C2DE5, b"c": 0xE60C2C52, b"foobar": 0xBF9CF968,
                 b"fo": 0x6222E842, b"foo": 0xA9F37ED7, b"chongo was here!\n": 0xD49930D5}


# ---------------------------------------------------------------- sizing in exact arithmetic

def f32(x: float) -> float:
    return struct.unpack("f", struct.pack("f", x))[0]


LN2 = Decimal(2).ln()
LN2SQ = LN2 * LN2
SLACK = Decimal("1e-12")


def _near(x: Decimal, y: Decimal) -> bool:
    return abs(x - y) <= SLACK * max(abs(x), abs(y), Decimal(1))


def ceil_candidates(x: Decimal):
    """the integers an honest implementation of ceil(x) may return (either neighbour within 1e-12 relative of a breakpoint)"""
    c = int(x.to_integral_value(rounding="ROUND_CEILING"))
    out = {c}
    if _near(x, Decimal(c - 1)):
        out.add(c - 1)
    if _near(x, Decimal(c)):
        out.add(c + 1)
    return out


def round_candidates(x: Decimal):
    r = int(x.to_integral_value(rounding=ROUND_HALF_EVEN))
    out = {r}
    fl = int(x.to_integral_value(rounding="ROUND_FLOOR"))
    half = Decimal(fl) + Decimal("0.5")
    if _near(x, half):
        out.update({fl, fl + 1})
    return out


def bloom_sizing(n: int, p: float):
    """returns (set of acceptable number_bits, dict bits -> set of acceptable number_hashes, p32)"""
    p32 = f32(float(p))
    if not (0.0 < p32 < 1.0) or n <= 0:
        return None
    dp = Decimal(p32)
    x = (-Decimal(n) * dp.ln()) / LN2SQ
    ms = ceil_candidates(x)
    ks = {}
    for m in ms:
        ks[m] = round_candidates(LN2 * Decimal(m) / Decimal(n))
    return ms, ks, p32


def bloom_sizing_simple(n: int, p: float):
    """(m, k) when unambiguous (no breakpoint within slack), else None; k may be 0 (invalid)"""
    r = bloom_sizing(n, p)
    if r is None:
        return None
    ms, ks, _ = r
    if len(ms) != 1:
        return None
    m = next(iter(ms))
    if len(ks[m]) != 1:
        return None
    return m, next(iter(ks[m]))


def bloom_theoretical_rate(n: int, m: int, k: int) -> Decimal:
    e = (-(Decimal(k) * Decimal(n)) / Decimal(m)).exp()
    return (Decimal(1) - e) ** k


# ---------------------------------------------------------------- export parsers / writers (native little-endian, as documented)

BLOOM_FOOTER = struct.Struct("<QQf")
BLOOM_FOOTER_BE = struct.Struct(">QQf")
CMS_FOOTER = struct.Struct("<IIq")
EXP_FOOTER = struct.Struct("<QQQf")
CUCKOO_FOOTER = struct.Struct("<II")


class FormatError(Exception):
    pass


def parse_bloom(data: bytes, counting=False):
    """-> dict(est, added, fpr32, cells(list of int), m, k) ; checks the length against the geometry derived from the footer"""
    if len(data) < BLOOM_FOOTER.size:
        raise FormatError("shorter than the footer")
    est, added, fpr = BLOOM_FOOTER.unpack(data[-BLOOM_FOOTER.size:])
    body = data[: -BLOOM_FOOTER.size]
    sz = bloom_sizing(est, fpr) if est > 0 and 0.0 < fpr < 1.0 else None
    if sz is None:
        raise FormatError(f"footer does not describe a valid filter: est={est} fpr={fpr}")
    ms, ks, _ = sz
    ok = None
    for m in sorted(ms):
        want = 4 * m if counting else (m + 7) // 8
        if want == len(body):
            ok = m
    if ok is None:
        raise FormatError(f"cell array length {len(body)} does not match the geometry derived from the footer (bits in {sorted(ms)})")
    if counting:
        cells = list(struct.unpack(f"<{ok}I", body))
    else:
        cells = list(body)
    return {"est": est, "added": added, "fpr32": fpr, "cells": cells, "m": ok, "ks": ks[ok]}


def bloom_bit(cells, i):
    return (cells[i // 8] >> (i % 8)) & 1


def write_bloom(cells, est, added, fpr, counting=False):
    body = struct.pack(f"<{len(cells)}I", *cells) if counting else bytes(cells)
    return body + BLOOM_FOOTER.pack(est, added, fpr)


def parse_hex_bloom(hexstr: str, counting=False):
    raw = bytes.fromhex(hexstr)
    est, added, fpr = BLOOM_FOOTER_BE.unpack(raw[-BLOOM_FOOTER_BE.size:])
    return {"est": est, "added": added, "fpr32": fpr, "body": raw[: -BLOOM_FOOTER_BE.size]}


def parse_cms(data: bytes):
    width, depth, added = CMS_FOOTER.unpack(data[-CMS_FOOTER.size:])
    body = data[: -CMS_FOOTER.size]
    if len(body) != 4 * width * depth:
        raise FormatError(f"counter array length {len(body)} != 4*{width}*{depth}")
    return {"width": width, "depth": depth, "added": added, "cells": list(struct.unpack(f"<{width * depth}i", body))}


def write_cms(cells, width, depth, added):
    return struct.pack(f"<{len(cells)}i", *cells) + CMS_FOOTER.pack(width, depth, added)


def parse_expanding(data: bytes):
    """-> dict(n, est, added, fpr32, filters=[(count, bits bytes)], m)"""
    n, est, added, fpr = EXP_FOOTER.unpack(data[-EXP_FOOTER.size:])
    body = data[: -EXP_FOOTER.size]
    if n < 1:
        raise FormatError("no sub-filter in the stream")
    if len(body) % n:
        raise FormatError(f"stream length {len(body)} is not a multiple of the number of filters {n}")
    per = len(body) // n
    blen = per - 8
    sz = bloom_sizing(est, fpr) if est > 0 and 0.0 < fpr < 1.0 else None
    if sz is None:
        raise FormatError(f"footer does not describe a valid filter: est={est} fpr={fpr}")
    ms, ks, _ = sz
    m_ok = [m for m in ms if (m + 7) // 8 == blen]
    if not m_ok:
        raise FormatError(f"per-filter length {blen} does not match geometry (bits in {sorted(ms)})")
    filters = []
    for i in range(n):
        chunk = body[i * per:(i + 1) * per]
        cnt = struct.unpack("<Q", chunk[:8])[0]
        filters.append((cnt, chunk[8:]))
    return {"n": n, "est": est, "added": added, "fpr32": fpr, "filters": filters, "m": m_ok[-1], "ks": ks[m_ok[-1]]}


def parse_cuckoo(data: bytes):
    bucket_size, max_swaps = CUCKOO_FOOTER.unpack(data[-CUCKOO_FOOTER.size:])
    body = data[: -CUCKOO_FOOTER.size]
    if bucket_size < 1 or len(body) % (4 * bucket_size):
        raise FormatError(f"bucket array length {len(body)} not a multiple of 4*bucket_size={bucket_size}")
    cap = len(body) // 4 // bucket_size
    vals = struct.unpack(f"<{cap * bucket_size}I", body)
    buckets = [list(vals[i * bucket_size:(i + 1) * bucket_size]) for i in range(cap)]
    return {"bucket_size": bucket_size, "max_swaps": max_swaps, "capacity": cap, "buckets": buckets}


def parse_counting_cuckoo(data: bytes):
    bucket_size, max_swaps = CUCKOO_FOOTER.unpack(data[-CUCKOO_FOOTER.size:])
    body = data[: -CUCKOO_FOOTER.size]
    if bucket_size < 1 or len(body) % (8 * bucket_size):
        raise FormatError(f"bin array length {len(body)} not a multiple of 8*bucket_size={bucket_size}")
    cap = len(body) // 8 // bucket_size
    vals = struct.unpack(f"<{cap * bucket_size * 2}I", body)
    buckets = []
    for i in range(cap):
        b = []
        for j in range(bucket_size):
            o = (i * bucket_size + j) * 2
            b.append((vals[o], vals[o + 1]))
        buckets.append(b)
    return {"bucket_size": bucket_size, "max_swaps": max_swaps, "capacity": cap, "buckets": buckets}


# ---------------------------------------------------------------- small executable models

class BloomModel:
    """bit-level Bloom filter written from the statement: bit (h_i mod m), i < k; bit i = bit i%8 of byte i//8"""

    def __init__(self, m, k):
        self.m, self.k = m, k
        self.cells = [0] * ((m + 7) // 8)
        self.added = 0

    def positions(self, hashes):
        return [hashes[i] % self.m for i in range(self.k)]

    def add(self, hashes):
        for p in self.positions(hashes):
            self.cells[p // 8] |= 1 << (p % 8)
        self.added += 1

    def check(self, hashes):
        return all((self.cells[p // 8] >> (p % 8)) & 1 for p in self.positions(hashes))

    def popcount(self):
        return sum(bin(c).count("1") for c in self.cells)


def cuckoo_fingerprint(hashval: int, bits: int) -> int:
    return hashval & ((1 << bits) - 1)


def cuckoo_indices(fp: int, capacity: int, hf):
    return fp % capacity, hf(str(fp)) % capacity
