"""Line-level hooks on the library's code through sys.monitoring (Python 3.12), without touching its source.

 * step budget: count executed library lines per call and raise StepBudgetExceeded when a call exceeds its budget
   (turns non-termination into an observable event, independent of wall-clock time);
 * line callback: call a function at every executed library line (crash-point snapshots, kill-at-N).
A cheap SIGALRM watchdog is provided for runs that are not under a line budget; when it fires the caller re-executes
the same deterministic case under the line budget, which is what decides.
"""
import signal
import sys
from contextlib import contextmanager

from . import repo
from .core import StepBudgetExceeded

mon = getattr(sys, "monitoring", None)
TOOL = 3
_state = {"claimed": False, "prefix": None, "cb": None, "count": 0, "limit": None, "armed": False, "total": 0}


def available():
    return mon is not None


def _on_line(code, line):
    fn = code.co_filename
    if not fn.startswith(_state["prefix"]):
        return mon.DISABLE
    if not _state["armed"]:
        return None
    _state["count"] += 1
    _state["total"] += 1
    lim = _state["limit"]
    if lim is not None and _state["count"] > lim:
        _state["armed"] = False
        raise StepBudgetExceeded(f"more than {lim} library lines executed in one call (last: {fn.rsplit('/', 1)[-1]}:{line})")
    cb = _state["cb"]
    if cb is not None:
        cb(code, line)
    return None


def _claim():
    if not _state["claimed"]:
        _state["prefix"] = repo.lib_prefix()
        mon.use_tool_id(TOOL, "pv-linehook")
        mon.register_callback(TOOL, mon.events.LINE, _on_line)
        _state["claimed"] = True


@contextmanager
def budget(limit):
    """every library line executed inside the block counts against `limit`"""
    _claim()
    _state.update(count=0, limit=limit, cb=None, armed=True)
    mon.set_events(TOOL, mon.events.LINE)
    try:
        yield _state
    finally:
        _state["armed"] = False
        mon.set_events(TOOL, 0)


@contextmanager
def on_every_line(cb, limit=None):
    """cb(code, line) at every executed library line inside the block"""
    _claim()
    _state.update(count=0, limit=limit, cb=cb, armed=True)
    mon.set_events(TOOL, mon.events.LINE)
    try:
        yield _state
    finally:
        _state["armed"] = False
        _state["cb"] = None
        mon.set_events(TOOL, 0)


def pause():
    _state["armed"] = False


def resume():
    _state["armed"] = True


def lines_counted():
    return _state["count"]


class WatchdogFired(Exception):
    pass


def _alarm(signum, frame):
    raise WatchdogFired()


@contextmanager
def watchdog(seconds):
    """wall-clock watchdog (SIGALRM).  Its firing is never a verdict: the caller re-runs under a line budget."""
    old = signal.signal(signal.SIGALRM, _alarm)
    signal.setitimer(signal.ITIMER_REAL, seconds)
    try:
        yield
    finally:
        signal.setitimer(signal.ITIMER_REAL, 0)
        signal.signal(signal.SIGALRM, old)
