"""icontract class invariants attached IN PLACE to the repository's cuckoo classes (no source change).

The invariant is evaluated by icontract before and after every public call on every instance; instances the harness has
registered (with the hash function it supplied and the expansion rate) are judged, all others pass (and are counted).
"""
from collections import Counter

from . import refimpl, repo

EVAL = Counter()
REG = {}  # id(obj) -> dict(hf=..., rate=..., last_capacity=..., counting=bool)
LAST = {}
_installed = False


class InvariantBroken(Exception):
    pass


def register(obj, hf, rate, counting):
    REG[id(obj)] = {"hf": hf, "rate": rate, "last_capacity": obj.capacity, "counting": counting, "obj": obj}


def unregister_all():
    REG.clear()


def new_case():
    REG.clear()
    _H2.clear()  # id(hf) keys are only meaningful while the hash function object is alive


_H2 = {}


def _candidates(fp, capacity, hf):
    key = (fp, id(hf))
    h2 = _H2.get(key)
    if h2 is None:
        h2 = hf(str(fp)) if hf is not None else refimpl.fnv1a_64(str(fp).encode("ascii"), 0)
        if len(_H2) > 200000:
            _H2.clear()
        _H2[key] = h2
    return fp % capacity, h2 % capacity


def table_problems(f, reg, update=True):
    """list of violated well-formedness rules of the bucket table the filter EXPOSES (public accessors only)"""
    problems = []
    cap, bsize, buckets = f.capacity, f.bucket_size, f.buckets
    if len(buckets) != cap:
        problems.append(f"len(buckets)={len(buckets)} != capacity={cap}")
    seen = {}
    for bi, bucket in enumerate(buckets):
        if len(bucket) > bsize:
            problems.append(f"bucket {bi} holds {len(bucket)} entries > bucket_size {bsize}")
        for entry in bucket:
            if reg["counting"]:
                fp, cnt = entry.finger, entry.count
                if cnt < 1:
                    problems.append(f"bin with fingerprint {fp} in bucket {bi} has count {cnt}")
            else:
                fp = int(entry)
            if fp in seen:
                problems.append(f"fingerprint {fp} stored twice (buckets {seen[fp]} and {bi})")
            seen[fp] = bi
            if cap > 0 and bi not in _candidates(fp, cap, reg["hf"]):
                problems.append(f"fingerprint {fp} sits in bucket {bi}, its candidate buckets for capacity {cap} are {_candidates(fp, cap, reg['hf'])}")
    last = reg["last_capacity"]
    rates = {reg["rate"], getattr(f, "expansion_rate", reg["rate"])}
    if cap != last:
        ok = False
        for rate in rates:
            c = last
            for _ in range(40):
                if not isinstance(rate, int) or rate < 2:
                    break
                c *= rate
                if c == cap:
                    ok = True
                    break
                if c > cap:
                    break
        if not ok:
            problems.append(f"capacity changed from {last} to {cap}, not by multiplication with the expansion rate {reg['rate']}")
        if update:
            reg["last_capacity"] = cap
    reg["rate"] = getattr(f, "expansion_rate", reg["rate"])
    return problems


def well_formed(self):
    EVAL["evaluations"] += 1
    reg = REG.get(id(self))
    if reg is None or reg.get("obj") is not self:
        EVAL["unregistered_instances"] += 1
        return True
    EVAL["judged"] += 1
    problems = table_problems(self, reg)
    if problems:
        LAST["problems"] = problems
        return False
    return True


def _well_formed_trampoline(self):
    return well_formed(self)


def broken_error(self):
    return InvariantBroken("cuckoo table invariant broken: " + "; ".join(LAST.get("problems", ["?"])[:4]))


def install():
    """attach the invariant to CuckooFilter and CountingCuckooFilter in place; returns False when icontract is unavailable"""
    global _installed
    if _installed:
        return True
    repo.add_deps()
    try:
        import icontract
    except Exception:
        return False
    import probables.cuckoo.cuckoo as c1
    import probables.cuckoo.countingcuckoo as c2

    for cls in (c1.CuckooFilter, c2.CountingCuckooFilter):
        dec = icontract.invariant(_well_formed_trampoline, error=broken_error)(cls)
        assert dec is cls
    _installed = True
    return True
