"""C18 - hash strategies are deterministic, prefix-stable and match reference FNV-1a.

Oracles: an independent FNV-1a (pv/refimpl.py), the published FNV test vectors, the C reference (ASan+UBSan),
and the purity / length / range / prefix monitors applied to every strategy on every key.
"""
import hashlib

from .. import cref, gen, refimpl
from ..core import Prop, Workload, Inconclusive

SEEDS = [0, 1, 2, 3, 7, 31, 32, 255, 256, 2**31, 2**32 - 1, 2**32, 2**63, 2**64 - 1, 2**64, 2**64 + 5, -1, -2, -(2**63), 10**30]
DEPTHS = [1, 2, 3, 4, 5, 6, 7, 8]


def setup(ctx):
    try:
        ctx.state["cref"] = cref.CRef()
    except Inconclusive as e:
        ctx.state["cref"] = None
        ctx.inconclusive.append(str(e))


def teardown(ctx):
    cr = ctx.state.get("cref")
    if cr is not None:
        rc, err = cr.close()
        if rc != 0:
            ctx.late_violation(f"C reference exited {rc} (sanitizer report at exit): {err[-800:]}")


def strategies():
    d = dict(gen.shipped_strategies())
    d.update(gen.decorator_strategies())
    return d


def monitor_strategy(ctx, name, hf, key, shipped):
    """purity, length, range, prefix for one key.  Depths are asked in ascending AND descending order and every answer is kept
    and re-examined at the end, so an answer that a later call mutates (shared/cached list) is observed."""
    kept = {}
    for d in DEPTHS:  # ascending: small depth first
        kept[d] = hf(key, d)
        ctx.check(isinstance(kept[d], list) and len(kept[d]) == d, f"{name}(key, {d}) returned {len(kept[d])} values", key=key)
    full = hf(key, 8)
    ctx.check(hf(key, 8) == full, f"{name} is not deterministic", key=key)
    ctx.check(isinstance(full, list) and len(full) == 8, f"{name}(key, 8) does not return 8 values", got=full, key=key)
    for d in reversed(DEPTHS):  # descending
        part = hf(key, d)
        ctx.check(len(part) == d, f"{name}(key, {d}) returned {len(part)} values", key=key)
        ctx.check(part == full[:d], f"{name}(key, {d}) is not a prefix of {name}(key, 8)", key=key, part=part, full=full)
    for d in DEPTHS:
        ctx.check(len(kept[d]) == d and kept[d] == full[:d], f"an answer of {name}(key, {d}) was changed by a later call (not a pure function)", key=key,
                  kept=kept[d], want=full[:d])
    # the caller owns the returned list: scribbling on it must not influence later answers
    r = hf(key, 3)
    r.append(12345)
    r[0] = -1
    ctx.check(hf(key, 3) == full[:3] and hf(key, 4) == full[:4], f"{name}: mutating a returned list changed a later answer", key=key)
    if shipped:
        for v in full:
            ctx.check(isinstance(v, int) and 0 <= v <= refimpl.M64, f"{name} returned a value outside 0..2^64-1", key=key, value=v)
    # deep requests (a Bloom filter at rate 1e-30 asks for ~100 hashes): still exactly `depth` values, and the shallow answers are their prefix
    for deep in (17, 33, 100):
        dv = hf(key, deep)
        ctx.check(len(dv) == deep and dv[:8] == full, f"{name}(key, {deep}) has the wrong length or is not an extension of {name}(key, 8)", key=key, got_len=len(dv))
        if name == "default_fnv_1a" and isinstance(key, (bytes, bytearray)):
            ctx.check(dv == refimpl.fnv_chain(bytes(key), deep), f"default_fnv_1a(key, {deep}) differs from reference FNV-1a with the basis advanced by 31 per index", key=key,
                      first_bad=[i for i, (a, b) in enumerate(zip(dv, refimpl.fnv_chain(bytes(key), deep))) if a != b][:3])
    # very deep requests (once per strategy and process: thousands of values, beyond any recursion or buffer limit an implementation might have)
    seen = ctx.state.setdefault("very_deep_done", set())
    if name not in seen:
        seen.add(name)
        for deep in (1000, 2500, 5000):
            dv = hf(key, deep)
            ctx.check(len(dv) == deep and dv[:8] == full and dv[:100] == hf(key, 100), f"{name}(key, {deep}) has the wrong length or is not an extension of the shallow answers", key=key, got_len=len(dv))
        ctx.count("very_deep_requests", 3)
    ctx.count(f"strategy_monitored.{name}")


def check_fnv_key(ctx, H, key_bytes, seeds, text=None):
    """fnv_1a / fnv_1a_32 / default_fnv_1a against the independent implementation for one key"""
    for s in seeds:
        want = refimpl.fnv1a_64(key_bytes, s)
        got = H.fnv_1a(key_bytes, s)
        ctx.check(got == want, "fnv_1a differs from reference FNV-1a 64", key=key_bytes, seed=s, got=got, want=want)
        want32 = refimpl.fnv1a_32(key_bytes, s)
        got32 = H.fnv_1a_32(key_bytes, s)
        ctx.check(got32 == want32, "fnv_1a_32 differs from reference FNV-1a 32", key=key_bytes, seed=s, got=got32, want=want32)
        if text is not None:
            ctx.check(H.fnv_1a(text, s) == want, "fnv_1a of ASCII text differs from its bytes", key=text, seed=s)
            ctx.check(H.fnv_1a_32(text, s) == want32, "fnv_1a_32 of ASCII text differs from its bytes", key=text, seed=s)
    chain = H.default_fnv_1a(key_bytes, 8)
    ctx.check(chain == refimpl.fnv_chain(key_bytes, 8), "default_fnv_1a differs from FNV-1a with basis advanced by 31 per index",
              key=key_bytes, got=chain, want=refimpl.fnv_chain(key_bytes, 8))
    ctx.check(H.default_fnv_1a(key_bytes, 3) == chain[:3] and H.default_fnv_1a(key_bytes) == chain[:1], "default_fnv_1a not prefix-stable", key=key_bytes)
    if text is not None:
        ctx.check(H.default_fnv_1a(text, 8) == chain, "default_fnv_1a of ASCII text differs from its bytes", key=text)
    ctx.count("keys_checked_against_reference_fnv")


def wl_exhaustive_bytes(ctx, rng, case):
    """index 0: the empty key and all 1-byte keys; index 1..256: all 2-byte keys with first byte index-1"""
    from probables import hashes as H

    if case.index == 0:
        keys = [b""] + [bytes([b]) for b in range(256)]
    else:
        keys = [bytes([case.index - 1, b]) for b in range(256)]
    seeds = SEEDS if ctx.tier == "thorough" else [0, 1, 7, 2**64 - 1, -1, 2**32]
    case.desc = {"kind": "all byte strings", "first": case.index, "n_keys": len(keys), "seeds": len(seeds)}
    strat = strategies()
    for k in keys:
        check_fnv_key(ctx, H, k, seeds)
        for name in ("default_fnv_1a", "default_md5", "default_sha256"):
            if name == "default_fnv_1a" or ctx.tier == "thorough" or k[-1:] in (b"", b"\x00", b"\x7f", b"\x80", b"\xff"):
                monitor_strategy(ctx, name, strat[name], k, True)
    # C reference on the same keys (seed 0,1,7 and a big one)
    cr = ctx.state.get("cref")
    if cr is not None:
        lines, want = [], []
        for k in keys:
            for s in (0, 1, 7, 2**64 - 1):
                lines.append(f"fnv64 {s} {cref.hexkey(k)}")
                want.append(H.fnv_1a(k, s))
                lines.append(f"fnv32 {s % 2**32} {cref.hexkey(k)}")
                want.append(H.fnv_1a_32(k, s))
        try:
            got = cr.ask_many(lines)
        except cref.SanitizerReport as e:
            ctx.fail(f"sanitizer report in the C reference: {e}")
        for ln, g, w in zip(lines, got, want):
            ctx.check(int(g) == w, "library FNV-1a differs from the C reference", command=ln, c=g, library=w)
        ctx.count("c_reference_hashes_compared", len(lines))
    case.op("keys", len(keys))
    case.nontrivial = True


def wl_exhaustive_ascii(ctx, rng, case):
    """index 0: all 1-char ASCII texts; index 1..128: 2-char ASCII texts with first char index-1. Text must hash like its bytes."""
    from probables import hashes as H

    if case.index == 0:
        texts = [""] + [chr(c) for c in range(128)]
    else:
        texts = [chr(case.index - 1) + chr(c) for c in range(128)]
    case.desc = {"kind": "all ASCII texts", "first": case.index, "n_keys": len(texts)}
    strat = strategies()
    for t in texts:
        b = t.encode("ascii")
        check_fnv_key(ctx, H, b, [0, 3, -1], text=t)
        for name in ("default_md5", "default_sha256"):
            ctx.check(strat[name](t, 4) == strat[name](b, 4), f"{name}: text key hashes differently from its UTF-8 bytes", key=t)
        ctx.count("text_vs_bytes_checked")
    case.nontrivial = True


def wl_exhaustive_3bytes(ctx, rng, case):
    """thorough tier only: ALL 16 777 216 three-byte keys (case index = first two bytes) against the independent FNV-1a 64/32, seeds 0 and 5"""
    from probables import hashes as H

    a, b = case.index >> 8, case.index & 0xFF
    case.desc = {"kind": "all 3-byte keys", "prefix": [a, b]}
    f64, f32, r64, r32 = H.fnv_1a, H.fnv_1a_32, refimpl.fnv1a_64, refimpl.fnv1a_32
    for c in range(256):
        k = bytes((a, b, c))
        if f64(k) != r64(k) or f64(k, 5) != r64(k, 5) or f32(k) != r32(k) or f32(k, 5) != r32(k, 5):
            ctx.fail("FNV-1a differs from the reference on a 3-byte key", key=k)
    ctx.counters["oracle_evaluations"] += 1024
    ctx.count("keys_checked_against_reference_fnv", 256)
    ctx.count("three_byte_keys_checked", 256)
    case.nontrivial = True


def wl_vectors(ctx, rng, case):
    """published FNV-1a vectors"""
    from probables import hashes as H

    case.desc = {"kind": "published FNV-1a test vectors"}
    for k, v in refimpl.FNV64_VECTORS.items():
        ctx.check(H.fnv_1a(k) == v and H.fnv_1a(k, 0) == v, "fnv_1a differs from a published 64-bit vector", key=k, got=H.fnv_1a(k), want=v)
        ctx.check(H.default_fnv_1a(k, 1) == [v], "default_fnv_1a[0] differs from a published vector", key=k)
        ctx.check(H.fnv_1a(k.decode("ascii")) == v, "fnv_1a(text) differs from a published vector", key=k)
    for k, v in refimpl.FNV32_VECTORS.items():
        ctx.check(H.fnv_1a_32(k) == v, "fnv_1a_32 differs from a published 32-bit vector", key=k, got=H.fnv_1a_32(k), want=v)
    ctx.count("published_vectors_checked", len(refimpl.FNV64_VECTORS) + len(refimpl.FNV32_VECTORS))
    case.nontrivial = True


_EXTREME = []


def extreme_keys():
    """data/fnv_extreme_keys.json: short ASCII keys (found once by tools/fnv_extremes.c, a search over ~10^11 states) whose running 64-bit
    FNV-1a state for one of the hash indices 0..7 comes within 2^32 of 2^64 or of 0 right before a multiplication"""
    if not _EXTREME:
        import json
        import os

        with open(os.path.join(os.path.dirname(__file__), "..", "..", "data", "fnv_extreme_keys.json")) as fh:
            _EXTREME.extend(json.load(fh))
    return _EXTREME


def wl_extreme_states(ctx, rng, case):
    """keys that drive the running FNV-1a state to the extremes of the 64-bit range (about one random 8-character key in 10^8 does, per index):
    the largest and smallest operands the multiply-and-mask step ever sees.  Each is hashed alone and as the prefix of longer keys, as
    text and as bytes, at the depth where the extreme occurs and beyond, and compared with the reference"""
    from probables import hashes as H

    key, idx, pos, which = extreme_keys()[case.index % len(extreme_keys())]
    case.desc = {"key": key, "index_with_the_extreme_state": idx, "byte": pos, "extreme": which}
    st = refimpl.FNV64_OFFSET + 31 * idx
    for b in key.encode()[: pos + 1]:
        st_x = (st % 2**64) ^ b
        st = (st_x * refimpl.FNV64_PRIME) % 2**64
    ctx.check(st_x >= 2**64 - 2**32 if which == "high" else st_x <= 2**32, "corpus entry does not have the extreme state it is listed with (harness data)", state=hex(st_x))
    tails = ["", rng.choice("abcxyz019"), "".join(rng.choice("abcdefghij0123456789 _-") for _ in range(rng.randint(2, 30)))]
    for tail in tails:
        text = key + tail
        data = text.encode("utf-8")
        for depth in sorted({1, idx + 1, idx + 2, idx + 3, 8, 12, rng.randint(idx + 2, 40)}):
            want = refimpl.fnv_chain(data, depth)
            for spelled, arg in (("bytes", data), ("text", text)):
                got = H.default_fnv_1a(arg, depth)
                ctx.counters["oracle_evaluations"] += 1
                if list(got) != want:
                    bad = [i for i, (x, y) in enumerate(zip(got, want)) if x != y]
                    ctx.fail(f"default_fnv_1a({spelled}, {depth}) differs from reference FNV-1a with the basis advanced by 31 per index, for a key whose running "
                             f"state reaches the {which} extreme of the 64-bit range at index {idx}", key=text, wrong_indices=bad[:6])
        for seed in (idx, idx + 1, 0):
            ctx.check(H.fnv_1a(data, seed) == refimpl.fnv1a_64(data, seed) == H.fnv_1a(text, seed), "fnv_1a differs from reference FNV-1a 64 for a key with an extreme running state",
                      key=text, seed=seed)
        ctx.count("keys_checked_against_reference_fnv")
    ctx.count("extreme_state_keys_checked")
    case.nontrivial = True


def wl_random(ctx, rng, case):
    """random longer / non-ASCII keys through every strategy, incl. decorator-built ones and structures' hashes()"""
    from probables import hashes as H
    import probables as P

    keys = gen.universe(rng, 6)
    if case.index % 3 == 1:
        # text beyond ASCII in several normalisation forms (decomposed, compatibility characters, conjoining jamo): a key is its code points
        from ..ck import EXOTIC_TEXT

        keys = keys[:4] + rng.sample(EXOTIC_TEXT, 3)
        ctx.count("universes_with_text_in_several_normalisation_forms")
    if case.index % 10 == 4:
        keys = keys[:4] + ["L" * rng.choice([1000, 4096, 5000]), bytes(rng.getrandbits(8) for _ in range(rng.choice([1024, 3000])))]  # long keys
    case.desc = {"keys": keys}
    strat = strategies()
    # calls that are REFUSED (a key that is neither text nor bytes; a structure asked to hash such a key) come first: a strategy is a pure
    # function, so nothing a failing call did may show in any later answer - all of which are compared with the references below
    for bad in (None, 5, 3.5, ["a"], ("k",)):
        for fn in (H.fnv_1a_32, H.fnv_1a, lambda x: H.default_fnv_1a(x, 2), lambda x: H.default_md5(x, 2), lambda x: H.default_sha256(x, 1),
                   lambda x: P.QuotientFilter(quotient=3).add(x), lambda x: P.BloomFilter(5, 0.1).add(x), lambda x: P.CuckooFilter(capacity=4).add(x),
                   lambda x: strat["decorated_int_salted"](x, 2), lambda x: strat["decorated_bytes_salted"](x, 2)):
            try:
                fn(bad)
            except Exception:
                ctx.count("refused_hash_calls")
    # ... and refused DEPTHS (a float that equals an integer, a fraction, a string, None) in between calls with other depths: the answers for
    # the integer depths around them are what they were before
    for name, hf in strat.items():
        k0 = keys[0]
        before = {d: list(hf(k0, d)) for d in (1, 2, 3, 5)}
        for bad in (3.0, 2.5, "3", None, 5.0):
            hf(k0, rng.choice([1, 2, 4, 6]))
            try:
                hf(k0, bad)
            except Exception:
                ctx.count("refused_hash_calls")
            for d in (3, 5, 2, 1):
                ctx.counters["oracle_evaluations"] += 1
                try:
                    now = list(hf(k0, d))
                except Exception as e:
                    ctx.fail(f"{name}(key, {d}) raises {type(e).__name__} after a call with depth {bad!r} was refused", key=k0)
                if now != before[d]:
                    ctx.fail(f"{name}(key, {d}) answers differently after a call with depth {bad!r} was refused", key=k0)
    for k in keys:
        kb = gen.to_bytes(k)
        for name, hf in strat.items():
            monitor_strategy(ctx, name, hf, k, shipped=name.startswith("default_"))
            if isinstance(k, str) and name in ("default_md5", "default_sha256", "decorated_bytes_blake2b"):
                ctx.check(hf(k, 5) == hf(kb, 5), f"{name}: text key hashes differently from its UTF-8 bytes", key=k)
        if isinstance(k, bytes) or k.isascii():
            check_fnv_key(ctx, H, kb, rng.sample(SEEDS, 5), text=k if isinstance(k, str) else None)
        if isinstance(k, str) and not k.isascii():
            # the UTF-8 bytes of a non-ASCII text are a DIFFERENT key for FNV-1a: hashing one spelling must not influence the other
            for name in ("default_fnv_1a",):
                b_first = strat[name](kb, 6)
                t_after = strat[name](k, 6)
                ctx.check(t_after == [H.fnv_1a(k, i) for i in range(6)] and b_first == refimpl.fnv_chain(kb, 6),
                          f"{name}: hashing the UTF-8 bytes of a non-ASCII text changed the hashes of the text itself (or vice versa)", key=k)
                ctx.check(strat[name](kb, 6) == b_first, f"{name}: not deterministic across spellings", key=k)
            ctx.count("both_spellings_checked")
        # the default strategy is seeded FNV-1a per index for EVERY key type: default_fnv_1a(k, d)[i] == fnv_1a(k, i)
        chain = H.default_fnv_1a(k, 6)
        ctx.check(chain == [H.fnv_1a(k, i) for i in range(6)], "default_fnv_1a(key, d)[i] is not fnv_1a(key, i) (offset basis advanced by 31 per index)", key=k,
                  got=chain, want=[H.fnv_1a(k, i) for i in range(6)])
        ctx.count("default_strategy_vs_per_index_fnv")
        if not (isinstance(k, bytes) or k.isascii()):
            # non-ASCII text through FNV: the values themselves are not pinned by a reference, purity/prefix/range are
            for s in rng.sample(SEEDS, 3):
                v = H.fnv_1a(k, s)
                ctx.check(v == H.fnv_1a(k, s) and 0 <= v <= refimpl.M64, "fnv_1a impure or out of range on non-ASCII text", key=k, seed=s)
                v = H.fnv_1a_32(k, s)
                ctx.check(v == H.fnv_1a_32(k, s) and 0 <= v <= refimpl.M32, "fnv_1a_32 impure or out of range on non-ASCII text", key=k, seed=s)
        # independent recomputation of the digest-chained strategies (first 8 bytes of the digest, chained on the digest)
        for name, fn in (("default_md5", hashlib.md5), ("default_sha256", hashlib.sha256)):
            tmp, want = kb, []
            for _ in range(4):
                tmp = fn(tmp).digest()
                want.append(int.from_bytes(tmp[:8], "little"))
            ctx.check(strat[name](k, 4) == want, f"{name} differs from the digest chain (first 8 bytes, little-endian)", key=k)
    # decorator-built strategies from functions that use their index: recomputed round by round, from depth 1 upwards
    for k in keys:
        kb = gen.to_bytes(k)
        want, tmp = [], gen._salted_int(k, 0)
        want.append(tmp)
        for idx in range(1, 5):
            tmp = gen._salted_int(f"{tmp:x}", idx)
            want.append(tmp)
        for d in (1, 2, 5):
            ctx.check(strat["decorated_int_salted"](k, d) == want[:d], "hash_with_depth_int does not pass index i to round i (round 0 first), or the rounds are not chained on the previous value",
                      key=k, depth=d, got=strat["decorated_int_salted"](k, d), want=want[:d])
        wantb, tmpb = [], kb
        for idx in range(5):
            tmpb = gen._salted_bytes(tmpb, idx)
            wantb.append(int.from_bytes(tmpb[:8], "little"))
        for d in (1, 2, 5):
            ctx.check(strat["decorated_bytes_salted"](k, d) == wantb[:d], "hash_with_depth_bytes does not pass index i to round i (round 0 first), or the rounds are not chained on the previous digest",
                      key=k, depth=d)
        ctx.count("decorator_rounds_recomputed")
    # SIBLING strategies: several strategies built by the decorators from functions that come out of ONE factory (same name, same
    # module, different behaviour) are alive at once and asked for the same keys in turn: each must equal the chain of its OWN function
    def make_int(salt):
        def salted(key, idx=0):
            return int(hashlib.sha256(gen.to_bytes(key) + salt + b"|%d" % idx).hexdigest()[:16], 16)
        return salted

    def make_bytes(salt):
        def salted(key, idx=0):
            return hashlib.blake2b(gen.to_bytes(key) + salt, digest_size=16).digest()
        return salted

    sib_int = [(make_int(s), H.hash_with_depth_int(make_int(s))) for s in (b"A", b"B", b"C")]
    sib_bytes = [(make_bytes(s), H.hash_with_depth_bytes(make_bytes(s))) for s in (b"A", b"B")]
    lam = [(lambda key, idx=0: 17, H.hash_with_depth_int(lambda key, idx=0: 17)), (lambda key, idx=0: 99, H.hash_with_depth_int(lambda key, idx=0: 99))]
    for k in keys[:12]:
        for d in (3, 1, 4):
            for fn, st in sib_int + lam:
                want, tmp = [], fn(k, 0)
                want.append(tmp)
                for idx in range(1, d):
                    tmp = fn(f"{tmp:x}", idx)
                    want.append(tmp)
                ctx.check(st(k, d) == want, "a decorator-built strategy returns values that are not the chain of ITS OWN function (sibling strategies from one factory alive at once)", key=k, depth=d)
            for fn, st in sib_bytes:
                want, tmp = [], gen.to_bytes(k)
                for idx in range(d):
                    tmp = fn(tmp, idx)
                    want.append(int.from_bytes(tmp[:8], "little"))
                ctx.check(st(k, d) == want, "a bytes-decorator strategy returns values that are not the chain of ITS OWN function (sibling strategies from one factory alive at once)", key=k, depth=d)
        ctx.count("sibling_strategy_checks")
    # NESTED strategies: the pure function handed to a decorator itself calls a shipped (decorator-built) strategy and another
    # decorator-built one - a strategy must be re-entrant.  The reference uses hashlib only.
    def md5_first(b):
        return int.from_bytes(hashlib.md5(b).digest()[:8], "little")

    def nested_bytes(key, idx=0):
        return hashlib.sha256(b"%d|" % (H.default_md5(key, 2)[1] ^ H.default_sha256(key, 1)[0])).digest()

    def nested_bytes_ref(kb):
        second = int.from_bytes(hashlib.md5(hashlib.md5(kb).digest()).digest()[:8], "little")
        sha = int.from_bytes(hashlib.sha256(kb).digest()[:8], "little")
        return hashlib.sha256(b"%d|" % (second ^ sha)).digest()

    nested = H.hash_with_depth_bytes(nested_bytes)

    def nested_int(key, idx=0):
        return nested(key, 2)[1] % 1000003

    nested2 = H.hash_with_depth_int(nested_int)
    for k in keys[:10]:
        kb = gen.to_bytes(k)
        want, tmp = [], kb
        for idx in range(6):
            tmp = nested_bytes_ref(tmp)
            want.append(int.from_bytes(tmp[:8], "little"))
        for d in (6, 2, 1, 3):
            ctx.check(nested(k, d) == want[:d], "a strategy whose function calls other decorator-built strategies does not return the chain of its own function (re-entrancy)", key=k, depth=d)
        ctx.check(nested2(k, 3) == nested2(k, 5)[:3] and nested2(k, 1) == [nested_int(k, 0)], "a strategy nested two levels deep is not prefix-stable / does not start with its function's value", key=k)
        ctx.count("nested_strategy_checks")
    # a structure's hashes() equals its strategy at the structure's depth
    hname, hf = gen.pick_hash(rng, keys)
    est, rate, m, kk = gen.bloom_geometry(rng)
    kw = {} if hf is None else {"hash_function": hf}
    eff = hf if hf is not None else H.default_fnv_1a
    bf = P.BloomFilter(est, rate, **kw)
    cbf = P.CountingBloomFilter(est, rate, **kw)
    w, d = rng.randint(1, 9), rng.randint(1, 6)
    cms = P.CountMinSketch(width=w, depth=d, **kw)
    case.desc.update({"hash": hname, "est": est, "rate": rate, "width": w, "depth": d})
    for k in keys:
        for obj, depth in ((bf, bf.number_hashes), (cbf, cbf.number_hashes), (cms, cms.depth)):
            ctx.check(obj.hashes(k) == eff(k, depth), f"{type(obj).__name__}.hashes(key) differs from its strategy at depth {depth}", key=k, hash=hname)
            ctx.check(obj.hashes(k, 3) == eff(k, 3), f"{type(obj).__name__}.hashes(key, 3) differs from its strategy", key=k, hash=hname)
        ctx.count("structure_hashes_checked", 3)
    ctx.check(kk == bf.number_hashes, "number_hashes differs from the independent sizing", got=bf.number_hashes, want=kk)
    case.nontrivial = True


def finish(cov, merged, tier):
    cov["exhaustive_note"] = ("workloads bytes_le2 and ascii_le2 enumerate ALL byte strings of length <= 2 (65 793 keys) and all ASCII "
                              "texts of length <= 2 completely; seeds and depths are a fixed list")


PROP = Prop(
    "C18",
    "exploration",
    rule=("bytes_le2: every byte string of length <= 2 (257 cases of up to 257 keys) against the independent FNV-1a 64/32 for a list of seeds "
          "(incl. negative and >= 2^64) and against the C reference; ascii_le2: every ASCII text of length <= 2 must hash like its bytes "
          "(FNV, md5, sha256); vectors: published FNV-1a vectors; random: random long / non-ASCII keys through all 5 strategies "
          "(purity, len == depth, 64-bit range, prefix stability for depths 1..8, digest-chain recomputation) and hashes() of real structures. "
          "Every case is distinct (different keys); non-trivial = it compared at least one key with a reference."),
    workloads=[
        Workload("vectors", wl_vectors, quick=1, thorough=1),
        Workload("bytes_le2", wl_exhaustive_bytes, quick=257, thorough=257, exhaustive=True),
        Workload("ascii_le2", wl_exhaustive_ascii, quick=129, thorough=129, exhaustive=True),
        Workload("random", wl_random, quick=150, thorough=60000),
        Workload("extreme_states", wl_extreme_states, quick=64, thorough=640),
        Workload("bytes_eq3", wl_exhaustive_3bytes, quick=0, thorough=65536, exhaustive=True),
    ],
    assumptions=["reference FNV-1a written from the published definition (offset basis, prime, xor-then-multiply)",
                 "C reference compiled with clang -fsanitize=address,undefined"],
    setup=setup,
    teardown=teardown,
    finish=finish,
    required=["keys_checked_against_reference_fnv", "c_reference_hashes_compared", "text_vs_bytes_checked", "structure_hashes_checked", "extreme_state_keys_checked"],
)
