"""C06 - exported bytes follow the documented C-compatible layout exactly.

Translation validation against independent implementations written from the documented layout:
 * every exported file is a program for the C reference READER (cref/ppref.c, built with ASan+UBSan): given only the file and a
   key it must answer like the library (Bloom, counting Bloom, count-min with min / mean / mean-min queries);
 * every operation history is a program for reference WRITERS (C for Bloom / counting Bloom / count-min, independent Python models
   for the expanding, rotating, cuckoo and counting-cuckoo streams): the bytes must be identical (cuckoo: up to the placement
   freedom the format has);
 * the hex form and the C header are checked against the byte export (the header is compiled with clang and executed).
"""
import os
import struct
import subprocess
from collections import Counter

from .. import bl, ck, cref, gen, refimpl
from ..core import Prop, Workload, Inconclusive


def setup(ctx):
    try:
        ctx.state["cref"] = cref.CRef()
    except Inconclusive as e:
        ctx.state["cref"] = None
        ctx.inconclusive.append(str(e))


def teardown(ctx):
    cr = ctx.state.get("cref")
    if cr is not None:
        rc, err = cr.close()
        if rc != 0:
            ctx.late_violation(f"C reference exited {rc} (sanitizer report / leak at exit): {err[-1200:]}")


def c_ask(ctx, line):
    cr = ctx.state.get("cref")
    if cr is None:
        raise Inconclusive("C reference unavailable")
    try:
        return cr.ask(line)
    except cref.SanitizerReport as e:
        ctx.fail(f"sanitizer report while the C reference processed a library-produced file: {e}")


def c06_keys(rng, n):
    """byte strings and ASCII text (text/bytes agreement is C18's business)"""
    out = []
    while len(out) < n:
        r = rng.random()
        if r < 0.5:
            k = "".join(rng.choice("abcdefghijklmnopqrstuvwxyz0123456789 -_") for _ in range(rng.randint(0, 12)))
        elif r < 0.8:
            k = bytes(rng.getrandbits(8) for _ in range(rng.randint(0, 10)))
        else:
            k = rng.choice(["", b"", "this is a test", "a" * 200, b"\x00", b"\xff\xfe", "key"])
        if k not in out:
            out.append(k)
    return out


def geometry(rng, max_bits):
    for _ in range(100):
        est, rate, m, k = gen.bloom_geometry(rng, small=rng.random() < 0.8, max_bits=max_bits)
        if refimpl.bloom_sizing_simple(est, refimpl.f32(rate)) == (m, k):
            return est, rate, m, k
    return 10, 0.05, 63, 4


def fpr_bits(rate):
    return struct.unpack("<I", struct.pack("<f", rate))[0]


# ------------------------------------------------------------------------------- Bloom / counting Bloom

def wl_bloom(ctx, rng, case):
    import probables as P

    counting = rng.random() < 0.45
    est, rate, m, k = geometry(rng, 3000 if counting else 40000)
    keys = c06_keys(rng, rng.randint(2, 20))
    case.desc = {"kind": "counting-bloom" if counting else "bloom", "est": est, "rate": rate, "bits": m, "hashes": k}
    ctx.observe("bits_mod_8", m % 8)
    sc = bl.Scratch(ctx, case)
    try:
        cls = P.CountingBloomFilter if counting else P.BloomFilter
        f = cls(est, rate)
        hist = []  # (key, signed amount) for the reference writer
        out = Counter()
        for _ in range(rng.randint(0, 25)):
            kk = rng.choice(keys)
            if counting and out[kk] > 0 and rng.random() < 0.3:
                n = rng.randint(1, out[kk])
                f.remove(kk, n)
                out[kk] -= n
                hist.append((kk, -n))
            elif counting:
                n = rng.choice([1, 1, 2, 7, 300])
                if rng.random() < 0.25:
                    # the key hashed once for a DEEPER structure and the list handed to this one: only the first number_hashes values count
                    f.add_alt(refimpl.fnv_chain(gen.to_bytes(kk), k + rng.randint(1, 6)), n)
                    ctx.count("additions_through_a_deeper_hash_list")
                else:
                    f.add(kk, n)
                out[kk] += n
                hist.append((kk, n))
            else:
                if rng.random() < 0.25:
                    f.add_alt(refimpl.fnv_chain(gen.to_bytes(kk), k + rng.randint(1, 6)))
                    ctx.count("additions_through_a_deeper_hash_list")
                else:
                    f.add(kk)
                hist.append((kk, 1))
        case.op("history", hist)
        path = sc.path("lib")
        f.export(path)
        data = bl.export_bytes_via(f, "bytes", sc)
        with open(path, "rb") as fh:
            ctx.check(fh.read() == data, "file export and bytes() differ")
        # ---- layout, read by an independent Python parser
        st = refimpl.parse_bloom(data, counting=counting)
        ctx.check((st["est"], st["added"], st["m"]) == (est, f.elements_added, m) and st["fpr32"] == refimpl.f32(rate), "footer fields differ from the filter's parameters",
                  footer=(st["est"], st["added"], st["fpr32"]), want=(est, f.elements_added, refimpl.f32(rate)))
        # ---- the C reader: the exported file is its program
        probe = keys + ["absent-" + str(i) for i in range(6)] + [b"\x01absent"]
        ans = c_ask(ctx, f"{'cbloom_check' if counting else 'bloom_check'} {path} " + " ".join(cref.hexkey(x) for x in probe))
        parts = ans.split()
        ctx.check(parts[0] == "OK", "C reader could not read the exported file", answer=ans)
        c_est, c_added, c_m, c_k, c_len, c_want = (int(x) for x in parts[1:7])
        ctx.check((c_est, c_added, c_m, c_k) == (est, f.elements_added, f.number_bits, f.number_hashes), "geometry re-derived by the C reader from the footer differs from the library's",
                  c=(c_est, c_added, c_m, c_k), library=(est, f.elements_added, f.number_bits, f.number_hashes))
        ctx.check(c_len == c_want, "cell array length in the file is not what the footer's geometry requires", file=c_len, required=c_want)
        for key, a in zip(probe, parts[7:]):
            lib = f.check(key)
            ctx.counters["disagreements_checked"] += 1
            deep = f.check_alt(refimpl.fnv_chain(gen.to_bytes(key), k + 3))
            if int(deep) != int(lib):
                ctx.fail("check_alt() given a deeper hash list answers differently from check()", key=key, check=int(lib), check_alt=int(deep))
            if int(a) != int(lib):
                ctx.fail("C reference reader answers differently from the library for the same exported file", key=key, c=int(a), library=int(lib))
        ctx.count("programs.files_read_by_c_reader")
        # ---- the C writer: the history is its program
        wpath = sc.path("cw")
        if counting:
            args = " ".join(f"{cref.hexkey(kx)} {n}" for kx, n in hist)
            ans = c_ask(ctx, f"cbloom_write {wpath} {est} {fpr_bits(rate)} {args}".rstrip())
        else:
            ans = c_ask(ctx, f"bloom_write {wpath} {est} {fpr_bits(rate)} " + " ".join(cref.hexkey(kx) for kx, _ in hist))
        ctx.check(ans.startswith("OK"), "C writer failed", answer=ans)
        with open(wpath, "rb") as fh:
            cdata = fh.read()
        ctx.counters["disagreements_checked"] += 1
        if cdata != data:
            a = refimpl.parse_bloom(data, counting=counting) if len(data) == len(cdata) else None
            b = refimpl.parse_bloom(cdata, counting=counting) if len(data) == len(cdata) else None
            diff = [(i, x, y) for i, (x, y) in enumerate(zip(a["cells"], b["cells"])) if x != y][:8] if a else None
            ctx.fail("library export differs from the file the C reference writer produces from the same additions", len_library=len(data), len_c=len(cdata),
                     differing_cells=diff, counters=(a["added"], b["added"]) if a else None)
        ctx.count("programs.histories_replayed_by_c_writer")
        # ---- independent Python bit model (bit i = bit i%8 of byte i//8; position = FNV-1a(seed i) mod m)
        if not counting:
            mdl = refimpl.BloomModel(m, k)
            for kx, _ in hist:
                mdl.add(refimpl.fnv_chain(gen.to_bytes(kx), k))
            ctx.check(bytes(mdl.cells) == data[:-20], "bit array differs from the independent bit model")
        # ---- files written by filters that came out of SET OPERATIONS (also chained: an operand whose element count is an estimate,
        # possibly 0 with bits set): the cell array is the AND / OR of the independent bit models, the footer describes the geometry, and
        # the C reader answers from the file like the library does
        if not counting and hist and rng.random() < 0.5:
            g, mg = cls(est, rate), refimpl.BloomModel(m, k)
            for kx in [rng.choice(keys) for _ in range(rng.randint(1, 12))]:
                g.add(kx)
                mg.add(refimpl.fnv_chain(gen.to_bytes(kx), k))
            AND = bytes(a & b for a, b in zip(mdl.cells, mg.cells))
            OR = bytes(a | b for a, b in zip(mdl.cells, mg.cells))
            inter = f.intersection(g)
            u0 = inter.union(cls(est, rate)) if inter is not None else None  # the same bits, element count re-estimated (0 when few bits are set)
            derived = [("f.intersection(g)", inter, AND), ("g.union(f)", g.union(f), OR)]
            # both operands ON DISK (their storage is the mapped file: cells followed by the footer)
            pf, pg = sc.path("df"), sc.path("dg")
            f.export(pf)
            g.export(pg)
            df, dg = P.BloomFilterOnDisk(pf), P.BloomFilterOnDisk(pg)
            derived += [("ondisk_f.union(ondisk_g)", df.union(dg), OR), ("ondisk_g.intersection(ondisk_f)", dg.intersection(df), AND), ("ondisk_f.union(g)", df.union(g), OR)]
            ondisk_open = [df, dg]
            if u0 is not None and u0.elements_added >= 0:
                derived += [("(f&g | empty)", u0, AND), ("(f&g | empty).intersection(f)", u0.intersection(f), AND), ("g.intersection(f&g | empty)", g.intersection(u0), AND),
                            ("(f&g | empty).union(g)", u0.union(g), bytes(mg.cells))]
                if u0.elements_added == 0 and any(AND):
                    ctx.count("derived_operands_with_zero_count_and_bits_set")
            for name, r, want_body in derived:
                if r is None:
                    ctx.fail(f"{name} of two filters of the same geometry returned None")
                if r.elements_added < 0:
                    continue  # completely set array: the documented sentinel, not exportable
                rd = bytes(r)
                ctx.counters["disagreements_checked"] += 1
                if rd[:-20] != want_body:
                    ctx.fail(f"the file exported by {name} does not hold the cells the documented rule selects (AND / OR of the operands' cells)",
                             differing_bytes=[(i, x, y) for i, (x, y) in enumerate(zip(rd[:-20], want_body)) if x != y][:8])
                rs = refimpl.parse_bloom(rd)
                ctx.check((rs["est"], rs["m"]) == (est, m) and rs["fpr32"] == refimpl.f32(rate), f"footer of the file exported by {name} does not describe the geometry")
                p2 = sc.path("derived")
                r.export(p2)
                ans2 = c_ask(ctx, f"bloom_check {p2} " + " ".join(cref.hexkey(x) for x in probe)).split()
                ctx.check(ans2[0] == "OK", f"C reader could not read the file exported by {name}")
                for key, a in zip(probe, ans2[7:]):
                    if int(a) != int(r.check(key)):
                        ctx.fail(f"C reference reader answers differently from the library for the file exported by {name}", key=key, c=int(a), library=int(r.check(key)))
                ctx.check(len(rd) == (m + 7) // 8 + 20 == r.export_size(), f"the file exported by {name} has {len(rd)} bytes, the layout requires {(m + 7) // 8 + 20}")
                ctx.count("programs.derived_files_checked")
            for o in ondisk_open:
                o.close()
        # ---- a CHECKPOINT of a live on-disk filter: the exported file holds the additions up to the export - also after the live filter
        # went on (more additions, a clear, the close)
        if not counting and rng.random() < 0.3:
            live = P.BloomFilterOnDisk(sc.path("live"), est, rate)
            try:
                for kx, _ in hist:
                    live.add(kx)
                cp = sc.path("checkpoint")
                live.export(cp)
                with open(cp, "rb") as fh:
                    ctx.check(fh.read() == data, "the checkpoint exported by an on-disk filter differs from the in-memory export of the same additions")
                for how in rng.sample(["add", "add", "clear", "export elsewhere"], 3):
                    if how == "add":
                        live.add(rng.choice(keys) if rng.random() < 0.5 else f"later-{rng.random()}")
                    elif how == "clear":
                        live.clear()
                    else:
                        live.export(sc.path("elsewhere"))
                    with open(cp, "rb") as fh:
                        ctx.check(fh.read() == data, f"a file exported earlier changed when the live on-disk filter went on ({how})")
                    ctx.counters["disagreements_checked"] += 1
            finally:
                live.close()
            with open(cp, "rb") as fh:
                ctx.check(fh.read() == data, "a file exported earlier changed when the live on-disk filter was closed")
            ctx.count("programs.checkpoints_of_a_live_ondisk_filter")
        # ---- hex form = cells, then the footer big-endian
        hx = f.export_hex()
        want_hex = data[:-20].hex() + refimpl.BLOOM_FOOTER_BE.pack(st["est"], st["added"], st["fpr32"]).hex()
        ctx.check(hx.lower() == want_hex, "hex export is not the cell array followed by the big-endian footer")
        ctx.counters["disagreements_checked"] += 2
        case.nontrivial = len(hist) > 0
    finally:
        sc.cleanup()


def wl_aligned_dense(ctx, rng, case):
    """plain Bloom filters (in memory and on disk) whose cell array is an exact multiple of a power-of-two block size (512 bytes .. 256 KiB)
    and in which most bytes carry a bit (positions handed over through add_alt, so the expected cells are known without any hashing): bytes(),
    the export file, the backing file, the hex form and the files exported by union / intersection are the documented cells + footer"""
    import probables as P

    est, rate, m, k = gen.aligned_geometry(rng, max_len=270000)
    nbytes = (m + 7) // 8
    case.desc = {"kind": "block-aligned dense bloom", "est": est, "rate": rate, "bits": m, "hashes": k, "cell_bytes": nbytes}
    ctx.observe("block_aligned_lengths", nbytes, cap=200)
    sc = bl.Scratch(ctx, case)
    objs = []
    try:
        def build(on_disk, share):
            f = P.BloomFilterOnDisk(sc.path("al"), est, rate) if on_disk else P.BloomFilter(est, rate)
            objs.append(f)
            cells = bytearray(nbytes)
            pos = [8 * b + rng.randrange(min(8, m - 8 * b)) for b in range(nbytes) if rng.random() < share]
            pos += [m - 1, 8 * (nbytes - 1), 0]  # first byte, last byte, last bit
            n_adds = 0
            for i in range(0, len(pos), k):
                grp = pos[i:i + k]
                grp += [grp[0]] * (k - len(grp))
                f.add_alt(list(grp))
                n_adds += 1
                for p in grp:
                    cells[p // 8] |= 1 << (p % 8)
            return f, bytes(cells), n_adds

        f, cf, nf = build(rng.random() < 0.5, 0.7)
        g, cg, ng = build(rng.random() < 0.3, 0.5)
        for name, o, cells, added in (("first", f, cf, nf), ("second", g, cg, ng)):
            data = bytes(o)
            ctx.counters["disagreements_checked"] += 1
            ctx.check(len(data) == nbytes + 20 == o.export_size(), f"bytes() of the {name} block-aligned filter has {len(data)} bytes, the layout requires {nbytes + 20}")
            ctx.check(data[:-20] == cells, f"cells exported by the {name} block-aligned filter differ from the positions that were set",
                      first_difference=next((i for i, (x, y) in enumerate(zip(data, cells)) if x != y), None))
            st = refimpl.parse_bloom(data)
            ctx.check((st["est"], st["added"], st["m"]) == (est, added, m) and st["fpr32"] == refimpl.f32(rate), f"footer of the {name} block-aligned filter differs from its parameters")
            p = sc.path("exp")
            o.export(p)
            with open(p, "rb") as fh:
                ctx.check(fh.read() == data, f"export(path) of the {name} block-aligned filter differs from bytes()")
            hx = o.export_hex()
            ctx.check(hx.lower() == cells.hex() + refimpl.BLOOM_FOOTER_BE.pack(st["est"], st["added"], st["fpr32"]).hex(), f"hex export of the {name} block-aligned filter is not cells + big-endian footer")
        AND = bytes(a & b for a, b in zip(cf, cg))
        OR = bytes(a | b for a, b in zip(cf, cg))
        for name, r, want in (("f.union(g)", f.union(g), OR), ("g.union(f)", g.union(f), OR), ("f.intersection(g)", f.intersection(g), AND), ("g.intersection(f)", g.intersection(f), AND)):
            ctx.check(r is not None, f"{name} of two block-aligned filters of one geometry returned None")
            if r.elements_added < 0:
                continue
            rd = bytes(r)
            ctx.counters["disagreements_checked"] += 1
            ctx.check(len(rd) == nbytes + 20, f"the file exported by {name} (block-aligned) has {len(rd)} bytes, the layout requires {nbytes + 20}")
            ctx.check(rd[:-20] == want, f"the file exported by {name} (block-aligned) does not hold the AND / OR of the operands' cells",
                      first_difference=next((i for i, (x, y) in enumerate(zip(rd, want)) if x != y), None))
            ctx.count("programs.derived_files_checked")
        ctx.count("block_aligned_dense_files")
        case.nontrivial = True
    finally:
        for o in objs:
            if hasattr(o, "close"):
                try:
                    o.close()
                except Exception:
                    pass
        sc.cleanup()


# ------------------------------------------------------------------------------- count-min

def wl_ondisk_big(ctx, rng, case):
    """an on-disk Bloom filter whose array is larger than 1 MiB, CREATED by the library: the backing file, the export copy and bytes() are
    exactly the cells followed by the footer (export_size() bytes), equal to what the C reference writer produces from the same
    additions, and the C reader answers from the backing file like the library"""
    import probables as P

    est, rate = rng.choice([(1_000_000, 0.01), (1_500_000, 0.05), (900_000, 0.01)])
    if case.index % 2:
        est, rate = rng.choice([(100_000, 0.01), (60_000, 0.001), (300_000, 0.05)])  # every other case: 100 .. 250 KiB (a few 64 KiB blocks and a remainder)
    est += rng.randint(0, 30)
    mk = refimpl.bloom_sizing_simple(est, rate)
    if mk is None:
        return
    m, k = mk
    keys = c06_keys(rng, rng.randint(5, 12))
    case.desc = {"kind": "on-disk bloom > 1 MiB", "est": est, "rate": rate, "bits": m, "hashes": k}
    sc = bl.Scratch(ctx, case)
    try:
        path = sc.path("big")
        f = P.BloomFilterOnDisk(path, est, rate)
        for kx in keys:
            f.add(kx)
        want_len = (m + 7) // 8 + 20
        ctx.check(f.export_size() == want_len, "export_size() of a big on-disk filter is not cells + footer", got=f.export_size(), want=want_len)
        copy = sc.path("copy")
        f.export(copy)
        wpath = sc.path("cw")
        ans = c_ask(ctx, f"bloom_write {wpath} {est} {fpr_bits(rate)} " + " ".join(cref.hexkey(kx) for kx in keys))
        ctx.check(ans.startswith("OK"), "C writer failed", answer=ans)
        with open(wpath, "rb") as fh:
            cdata = fh.read()
        for name, pth in (("backing file", path), ("export copy", copy)):
            with open(pth, "rb") as fh:
                data = fh.read()
            ctx.counters["disagreements_checked"] += 1
            ctx.check(len(data) == want_len, f"{name} of a big on-disk filter has {len(data)} bytes, the layout requires {want_len}")
            ctx.check(data == cdata, f"{name} of a big on-disk filter differs from the file the C reference writer produces from the same additions",
                      first_difference=next((i for i, (x, y) in enumerate(zip(data, cdata)) if x != y), None), lengths=(len(data), len(cdata)))
        probe = keys + ["absent-1", "absent-2"]
        parts = c_ask(ctx, f"bloom_check {path} " + " ".join(cref.hexkey(x) for x in probe)).split()
        ctx.check(parts[0] == "OK", "C reader could not read the backing file of a big on-disk filter", answer=" ".join(parts[:8]))
        for key, a in zip(probe, parts[7:]):
            ctx.check(int(a) == int(f.check(key)), "C reference reader answers differently from the library for a big backing file", key=key)
        # ---- clear(): the file is then the export of an EMPTY filter of this geometry (cells all zero, the footer intact with count 0)
        f.clear()
        empty = bytes(want_len - 20) + refimpl.BLOOM_FOOTER.pack(est, 0, refimpl.f32(rate))
        f.export(copy)
        for name, pth in (("backing file", path), ("export copy", copy)):
            with open(pth, "rb") as fh:
                data = fh.read()
            ctx.counters["disagreements_checked"] += 1
            ctx.check(data == empty, f"{name} of a big on-disk filter after clear() is not the export of an empty filter of its geometry",
                      first_difference=next((i for i, (x, y) in enumerate(zip(data, empty)) if x != y), None), lengths=(len(data), len(empty)), footer=refimpl.BLOOM_FOOTER.unpack(data[-20:]))
        f.add(keys[0])
        ctx.check(f.check(keys[0]) and f.elements_added == 1, "a big on-disk filter does not take additions after clear()")
        f.close()
        ctx.count("programs.files_read_by_c_reader")
        ctx.count("programs.histories_replayed_by_c_writer")
        ctx.count("big_ondisk_files")
        case.nontrivial = True
    finally:
        sc.cleanup()


def wl_cms(ctx, rng, case):
    import probables as P

    mode = rng.choice(["min", "mean", "meanmin"])
    cls = {"min": P.CountMinSketch, "mean": P.CountMeanSketch, "meanmin": P.CountMeanMinSketch}[mode]
    width = rng.choice([2, 3, 4, 5, 8, 64, 1000])
    depth = rng.randint(1, 6)
    keys = c06_keys(rng, rng.randint(2, 16))
    case.desc = {"kind": "count-min", "mode": mode, "width": width, "depth": depth}
    sc = bl.Scratch(ctx, case)
    try:
        s = cls(width=width, depth=depth)
        hist = []
        out = Counter()
        for _ in range(rng.randint(0, 25)):
            kk = rng.choice(keys)
            if rng.random() < 0.08:
                # a call the sketch REFUSES (an amount that is no integer, a hash list made for a deeper sketch): it is not part of the
                # history the reference writer replays - the file must not show a trace of it
                how = rng.choice(["float amount", "None amount", "deeper list to add_alt", "deeper list to remove_alt"])
                if how == "float amount" and case.index % 6 == 1:
                    how = "None amount"  # (next to a cell at its limit a float amount is clamped instead of refused - not a refusal to rely on)
                try:
                    if how == "float amount":
                        s.add(kk, 2.0)
                    elif how == "None amount":
                        s.remove(kk, None)
                    elif how == "deeper list to add_alt":
                        s.add_alt(s.hashes(kk, depth + rng.randint(1, 3)), 3)
                    else:
                        s.remove_alt(s.hashes(kk, depth + rng.randint(1, 3)), 1)
                    raise AssertionError(f"the sketch accepted a call it refuses on the unchanged tree ({how})")
                except (TypeError, IndexError):
                    ctx.count("cms_refused_calls_inside_the_history")
                continue
            if out[kk] > 0 and rng.random() < 0.3:
                n = rng.randint(1, out[kk])
                s.remove(kk, n)
                out[kk] -= n
                hist.append((kk, -n))
            else:
                n = rng.choice([1, 1, 2, 9, 1000])
                if case.index % 6 == 1 and rng.random() < 0.25:
                    n = rng.choice([2**31 - 1, 2**31 - 1000, 2**31 + 5, 2**30])  # cells driven to (and back from) the int32 ceiling
                    ctx.count("cms_histories_touching_the_int32_limit")
                s.add(kk, n)
                out[kk] += n
                hist.append((kk, n))
        case.op("history", hist)
        path = sc.path("lib")
        s.export(path)
        data = bytes(s)
        st = refimpl.parse_cms(data)
        ctx.check((st["width"], st["depth"], st["added"]) == (width, depth, s.elements_added), "count-min footer differs from the sketch's parameters", footer=st)
        probe = keys + ["absent-" + str(i) for i in range(5)]
        ans = c_ask(ctx, f"cms_check {path} {mode} " + " ".join(cref.hexkey(x) for x in probe))
        parts = ans.split()
        ctx.check(parts[0] == "OK" and (int(parts[1]), int(parts[2]), int(parts[3])) == (width, depth, s.elements_added), "C reader read another footer", answer=ans[:80])
        ctx.check(int(parts[4]) == 4 * width * depth, "counter array length is not 4*width*depth", got=int(parts[4]))
        for key, a in zip(probe, parts[5:]):
            lib = s.check(key)
            ctx.counters["disagreements_checked"] += 1
            if int(a) != lib:
                ctx.fail(f"C reference reader ({mode} query) answers differently from the library for the same exported file", key=key, c=int(a), library=lib)
        ctx.count("programs.files_read_by_c_reader")
        wpath = sc.path("cw")
        ans = c_ask(ctx, f"cms_write {wpath} {width} {depth} " + " ".join(f"{cref.hexkey(kx)} {n}" for kx, n in hist))
        with open(wpath, "rb") as fh:
            cdata = fh.read()
        ctx.counters["disagreements_checked"] += 1
        if cdata != data:
            b = refimpl.parse_cms(cdata)
            diff = [(i, x, y) for i, (x, y) in enumerate(zip(st["cells"], b["cells"])) if x != y][:8]
            ctx.fail("count-min export differs from the file the C reference writer produces from the same history", differing_cells=diff, totals=(st["added"], b["added"]))
        ctx.count("programs.histories_replayed_by_c_writer")
        # ---- this sketch is a SHARD: a blank total joins it and goes on counting (also: the shard joins a blank sketch); whatever the
        # other one does afterwards, this sketch's file stays the file of ITS additions
        total = cls(width=width, depth=depth)
        total.join(s)
        total.add(rng.choice(keys), 7)
        total.remove(rng.choice(keys), 2)
        ctx.check(bytes(s) == data, "the exported file of a sketch changed after ANOTHER sketch that had joined it (as a blank receiver) went on counting")
        total.clear()
        ctx.check(bytes(s) == data, "the exported file of a sketch changed after another sketch that had joined it was cleared")
        ctx.counters["disagreements_checked"] += 2
        ctx.count("programs.shards_joined_by_a_blank_total")
        ctx.observe("cms_modes", mode)
        case.nontrivial = len(hist) > 0
    finally:
        sc.cleanup()


# ------------------------------------------------------------------------------- expanding / rotating streams (independent Python writer)

def wl_stream(ctx, rng, case):
    import probables as P

    rotating = rng.random() < 0.5
    est = rng.choice([1, 2, 3, 5, 8])
    for _ in range(60):
        rate = rng.choice([0.3, 0.1, 0.05, 0.01, 0.001])
        mk = refimpl.bloom_sizing_simple(est, rate)
        if mk and mk[1] >= 1 and refimpl.bloom_sizing_simple(est, refimpl.f32(rate)) == mk:
            break
    m, k = mk
    Q = rng.randint(1, 4)
    keys = c06_keys(rng, rng.randint(3, 24))
    case.desc = {"kind": "rotating" if rotating else "expanding", "est": est, "rate": rate, "bits": m, "hashes": k, "queue": Q}
    f = P.RotatingBloomFilter(est, rate, max_queue_size=Q) if rotating else P.ExpandingBloomFilter(est, rate)
    # reference writer: list of (count, bit model), FIFO growth / rotation as documented
    subs = [refimpl.BloomModel(m, k)]
    added = 0
    for step in range(rng.randint(0, 40)):
        r = rng.random()
        if r < 0.9:
            kk = rng.choice(keys)
            force = rng.random() < 0.12
            hs = refimpl.fnv_chain(gen.to_bytes(kk), k)
            f.add(kk, force=force)
            case.op("add", kk, force)
            added += 1
            if force or not any(s.check(hs) for s in subs):
                if subs[-1].added >= est:
                    if rotating and len(subs) >= Q:
                        subs.pop(0)
                    subs.append(refimpl.BloomModel(m, k))
                subs[-1].add(hs)
        elif r < 0.94:
            # the stream is loaded back (from its bytes, or from a file) and the LOADED object carries the history on: what it writes from
            # here on is still what the reference writer produces for the whole history
            cls = type(f)
            extra = {"max_queue_size": Q} if rotating else {}
            if rng.random() < 0.6:
                f = cls.frombytes(bytes(f), **extra)
                case.op("reload", "frombytes")
            else:
                sc = bl.Scratch(ctx, case)
                try:
                    p = sc.path("stream")
                    f.export(p)
                    f = cls(filepath=p, **extra)
                finally:
                    sc.cleanup()
                case.op("reload", "filepath")
            ctx.count("stream_histories_continued_by_a_loaded_object")
        else:
            f.push()
            case.op("push")
            if rotating and len(subs) >= Q:
                subs.pop(0)
            subs.append(refimpl.BloomModel(m, k))
        want = b"".join(struct.pack("<Q", s.added) + bytes(s.cells) for s in subs) + refimpl.EXP_FOOTER.pack(len(subs), est, added, rate)
        got = bytes(f)
        ctx.counters["disagreements_checked"] += 1
        if got != want:
            try:
                g = refimpl.parse_expanding(got)
                info = {"n": g["n"], "counts": [c for c, _ in g["filters"]], "added": g["added"]}
            except refimpl.FormatError as e:
                info = {"format_error": str(e)}
            ctx.fail(f"exported stream differs from the reference writer's after step {step} ({case.ops[-1][0]})", library=info,
                     reference={"n": len(subs), "counts": [s.added for s in subs], "added": added})
    ctx.count("programs.histories_replayed_by_python_writer")
    case.nontrivial = len(subs) > 1


# ------------------------------------------------------------------------------- cuckoo formats (independent parser, placement freedom)

def wl_cuckoo(ctx, rng, case):
    import random as stdrandom

    import probables as P
    from probables.exceptions import CuckooFilterFullError

    cfg = ck.gen_cfg(rng, small=rng.random() < 0.7, allow_rate=False)
    large = case.index % 40 == 7  # a few default-sized and bigger tables: block / buffer sizes that tiny tables never reach
    if large:
        cfg.capacity, cfg.bucket_size, cfg.finger_size, cfg.max_swaps = rng.choice([10000, 16500, 33000, 70000, 140000]), rng.choice([2, 4]), 4, 50  # up to 2 MiB of slots
        ctx.count("large_cuckoo_tables")
    crowded = not large and case.index % 5 == 2
    if crowded:
        # a crowded little table with one or two kicks per insertion: insertions and expansions that FAIL (and are rolled back) on the way
        cfg.capacity, cfg.bucket_size, cfg.max_swaps = rng.choice([2, 3, 4, 8]), rng.choice([1, 1, 2]), rng.choice([1, 1, 2])
        cfg.auto_expand = rng.random() < 0.8
        ctx.count("crowded_cuckoo_tables")
    keys = ck.gen_keys(rng, cfg, (rng.randint(3, 14) if not crowded else cfg.capacity * cfg.bucket_size + rng.randint(2, 6)) if not large else 300)
    if len(keys) < 2:
        return
    case.desc = cfg.desc()
    stdrandom.seed(rng.getrandbits(32))
    f = cfg.make(P)
    model = ck.Model(cfg)
    if large:
        for kk in keys[:-6]:
            f.add(kk)
            fp = cfg.raw_fp(kk)
            model.counts[fp] = model.counts[fp] + 1 if cfg.counting else 1
        if rng.random() < 0.5:
            f.expand()
    for step in range(rng.randint(1, 30) if not large else 4):
        kk = rng.choice(keys)
        fp = cfg.raw_fp(kk)
        try:
            if rng.random() < 0.78:
                case.op("add", kk)
                f.add(kk)
                model.counts[fp] = model.counts[fp] + 1 if cfg.counting else 1
            else:
                case.op("remove", kk)
                f.remove(kk)
                if model.counts[fp] > 0:
                    model.counts[fp] -= 1 if cfg.counting else model.counts[fp]
                if model.counts[fp] <= 0:
                    del model.counts[fp]
        except CuckooFilterFullError:
            ctx.count("cuckoo_calls_that_failed_with_a_full_table")
            seen = f.check(kk)
            model.counts[fp] = int(seen)
            if not model.counts[fp]:
                del model.counts[fp]
        data = bytes(f)
        cap, b = f.capacity, f.bucket_size
        where = f"after step {step} ({case.ops[-1]})"
        ctx.counters["disagreements_checked"] += 1
        if cfg.counting:
            ctx.check(len(data) == cap * b * 8 + 8, f"counting cuckoo export length is not capacity*bucket_size*8+8 {where}", got=len(data), capacity=cap, bucket_size=b)
            st = refimpl.parse_counting_cuckoo(data)
            seen_fp = Counter()
            for bi, bucket in enumerate(st["buckets"]):
                zero_seen = False
                for fpv, cnt in bucket:
                    if fpv == 0:
                        zero_seen = True
                        ctx.check(cnt == 0, f"an empty bin carries a count {where}", bucket=bi)
                        continue
                    ctx.check(not zero_seen, f"a bucket is not zero-padded at its end {where}", bucket=bi)
                    ctx.check(bi in cfg.candidates(fpv, cap), f"exported fingerprint sits in a bucket that is not one of its two candidates {where}", fingerprint=fpv, bucket=bi)
                    seen_fp[fpv] += cnt
            ctx.check(dict(seen_fp) == {k2: v for k2, v in model.counts.items() if v > 0}, f"exported bins are not the model's fingerprints with their counts {where}",
                      exported=dict(seen_fp), model=dict(model.counts))
        else:
            ctx.check(len(data) == cap * b * 4 + 8, f"cuckoo export length is not capacity*bucket_size*4+8 {where}", got=len(data), capacity=cap, bucket_size=b)
            st = refimpl.parse_cuckoo(data)
            seen_fp = Counter()
            for bi, bucket in enumerate(st["buckets"]):
                zero_seen = False
                for fpv in bucket:
                    if fpv == 0:
                        zero_seen = True
                        continue
                    ctx.check(not zero_seen, f"a bucket is not zero-padded at its end {where}", bucket=bi)
                    ctx.check(bi in cfg.candidates(fpv, cap), f"exported fingerprint sits in a bucket that is not one of its two candidates {where}", fingerprint=fpv, bucket=bi)
                    seen_fp[fpv] += 1
            ctx.check(dict(seen_fp) == {k2: 1 for k2, v in model.counts.items() if v > 0}, f"exported fingerprints are not exactly the model's {where}",
                      exported=sorted(seen_fp), model=sorted(model.counts))
        ctx.check((st["bucket_size"], st["max_swaps"]) == (b, f.max_swaps), f"cuckoo footer is not (bucket_size, max_swaps) {where}", footer=(st["bucket_size"], st["max_swaps"]))
    ctx.count("programs.histories_replayed_by_python_writer")
    case.nontrivial = True


# ------------------------------------------------------------------------------- C header

HEADER_MAIN = r"""
#include <stdio.h>
#include "%s"
int main(void) {
    printf("%%llu %%llu %%.9g %%llu %%u %%zu\n", (unsigned long long)estimated_elements, (unsigned long long)elements_added,
           (double)false_positive_rate, (unsigned long long)number_bits, number_hashes, sizeof(bloom));
    for (size_t i = 0; i < sizeof(bloom); i++) printf("%%02x", bloom[i]);
    printf("\n");
    return 0;
}
"""


def wl_header(ctx, rng, case):
    import probables as P

    counting = rng.random() < 0.3
    est, rate, m, k = geometry(rng, 800 if counting else 4000)
    keys = c06_keys(rng, rng.randint(1, 10))
    case.desc = {"kind": "c-header", "counting": counting, "est": est, "rate": rate}
    sc = bl.Scratch(ctx, case)
    try:
        f = (P.CountingBloomFilter if counting else P.BloomFilter)(est, rate)
        for kk in keys:
            f.add(kk)
        hpath = sc.path("hdr").replace(".bin", ".h")
        f.export_c_header(hpath)
        cpath, xpath = hpath[:-2] + ".c", hpath[:-2] + ".x"
        with open(cpath, "w") as fh:
            fh.write(HEADER_MAIN % os.path.basename(hpath))
        r = subprocess.run(["clang", "-O0", "-fsanitize=address,undefined", "-fno-sanitize-recover=all", "-o", xpath, cpath], cwd=os.path.dirname(hpath),
                           capture_output=True, text=True)
        ctx.check(r.returncode == 0, "the exported C header does not compile", stderr=r.stderr[-500:])
        r = subprocess.run([xpath], capture_output=True, text=True)
        ctx.check(r.returncode == 0, "program built from the exported C header failed", stderr=r.stderr[-500:])
        l1, l2 = r.stdout.splitlines()[:2]
        e, a, p, nb, nh, sz = l1.split()
        ctx.check((int(e), int(a), int(nb), int(nh)) == (est, f.elements_added, f.number_bits, f.number_hashes), "constants of the C header differ from the filter", got=l1)
        ctx.check(abs(float(p) - f.false_positive_rate) <= 1e-6 * f.false_positive_rate, "false_positive_rate constant differs", got=p)
        data = bytes(f)
        arr = bytes.fromhex(l2)
        ncell = len(data) - 20
        ctx.check(arr[:ncell] == data[:ncell], "the array of the C header does not start with the exported cell array")
        ctx.counters["disagreements_checked"] += 3
        ctx.count("programs.c_headers_compiled")
        case.nontrivial = True
    finally:
        sc.cleanup()


def finish(cov, merged, tier):
    c = merged["counters"]
    cov["programs"] = int(sum(v for k, v in c.items() if k.startswith("programs.")))
    cov["disagreements_checked"] = int(c.get("disagreements_checked", 0))
    cr = merged.get("state_evidence", {})


PROP = Prop(
    "C06",
    "translation_validation",
    rule=("programs: (a) every exported Bloom / counting-Bloom / count-min file of a sweep of parameterisations (all residues of number_bits mod 8, widths 2..1000, "
          "depths 1..6, min / mean / mean-min) and key multisets (byte strings, ASCII text, empty key) read by the C reference reader with member and non-member "
          "probe keys; (b) every history (additions, legitimate removals) replayed by the C reference writer and, for the expanding / rotating / cuckoo / "
          "counting-cuckoo streams, by independent Python models after every step; (c) hex form and compiled C headers. disagreements_checked counts the answer "
          "and byte comparisons. Non-trivial = non-empty history (a, b) / grown stream; distinct by hash of (parameters, history)."),
    workloads=[
        Workload("bloom", wl_bloom, quick=500, thorough=200000),
        Workload("cms", wl_cms, quick=400, thorough=150000),
        Workload("stream", wl_stream, quick=300, thorough=100000),
        Workload("cuckoo", wl_cuckoo, quick=300, thorough=80000),
        Workload("header", wl_header, quick=12, thorough=1000),
        Workload("ondisk_big", wl_ondisk_big, quick=4, thorough=24),
        Workload("aligned_dense", wl_aligned_dense, quick=10, thorough=300),
    ],
    assumptions=["the C reference (cref/ppref.c) was written from the documented layout, not from the library; built with clang -fsanitize=address,undefined -fno-sanitize-recover=all",
                 "geometries whose ceil/round argument is within 1e-9 of a breakpoint are not used (C and Python floating point may legitimately differ there)",
                 "text keys are ASCII; mean-min needs width >= 2; mean / mean-min use floor division as the library does",
                 "cuckoo formats are checked up to the placement freedom the format has (which of its two candidate buckets holds a fingerprint)"],
    setup=setup,
    teardown=teardown,
    finish=finish,
    required=["cms_histories_touching_the_int32_limit", "programs.files_read_by_c_reader", "programs.histories_replayed_by_c_writer", "programs.histories_replayed_by_python_writer", "programs.c_headers_compiled",
              "disagreements_checked"],
    shards={"quick": 4, "thorough": 16},
)
