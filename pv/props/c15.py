"""C15 - cuckoo table invariants hold after every operation.

Monitor shape: class invariant.  icontract attaches a table well-formedness predicate to CuckooFilter and CountingCuckooFilter
in place, so it is evaluated before and after EVERY public call on the real objects, under all resolutions of the internal
eviction choices (scripted random, DFS) for bounded histories; tables obtained by loading an export are judged explicitly.
"""
import os
import random as _stdrandom
from collections import Counter

from .. import bl, ck, contracts, rngscript
from ..core import Prop, Workload, Inconclusive


def setup(ctx):
    ok = contracts.install()
    ctx.state["icontract"] = ok
    if not ok:
        ctx.inconclusive.append("icontract is not installed beside the repository's interpreter (run ./setup.sh)")


def explore(ctx, rng, case, cfg, keys, ops, max_leaves, extra):
    import probables as P

    sc = bl.Scratch(ctx, case)
    stats = Counter()

    def on_new(f):
        contracts.register(f, cfg.hf, cfg.expansion_rate, cfg.counting)
        # a table obtained from a constructor or a loader is judged right away
        probs = contracts.table_problems(f, contracts.REG[id(f)])
        stats["explicit_evaluations"] += 1
        if probs:
            ctx.fail("table of a freshly created / loaded filter is not well-formed: " + "; ".join(probs[:3]), decisions=list(rngscript.S.trace))

    def oracle(f, model, i, op, outcome, before):
        # explicit evaluation at the quiescent point (in addition to icontract's own before/after checks)
        probs = contracts.table_problems(f, contracts.REG[id(f)])
        stats["explicit_evaluations"] += 1
        ctx.counters["oracle_evaluations"] += 1
        if probs:
            ctx.fail(f"table not well-formed after op {i} {op} -> {outcome[0]}: " + "; ".join(probs[:3]), decisions=list(rngscript.S.trace),
                     capacity=f.capacity, bucket_size=f.bucket_size)
        # read-only public calls also run under the invariant
        f.check(keys[0])
        f.load_factor()

    def run():
        contracts.unregister_all()
        try:
            ck.run_history(ctx, P, cfg, keys, ops, sc, oracle, on_new=on_new, stats=stats)
        except contracts.InvariantBroken as e:
            ctx.fail(f"icontract invariant fired: {e}", decisions=list(rngscript.S.trace))

    before = contracts.EVAL["judged"]
    contracts.new_case()
    try:
        ex = rngscript.explore(run, max_leaves, sample_rng=_stdrandom.Random(rng.getrandbits(32)), extra_samples=extra)
    finally:
        contracts.unregister_all()
        sc.cleanup()
    ctx.count("icontract_invariant_evaluations_judged", contracts.EVAL["judged"] - before)
    ctx.count("explicit_invariant_evaluations", stats["explicit_evaluations"])
    ctx.count("resolutions_executed", ex.runs + ex.sampled)
    ctx.count("decisions_taken", ex.decisions)
    for k in ("failed_adds", "failed_expansions", "explicit_expansions", "capacity_changes", "reloads"):
        ctx.count(k, stats[k])
    if ex.exhaustive and ex.runs > 1:
        ctx.count("histories_explored_exhaustively_with_choices")
    return ex, stats


def wl_histories(ctx, rng, case):
    if not ctx.state.get("icontract"):
        raise Inconclusive("icontract unavailable")
    cfg = ck.gen_cfg(rng)
    by_rate = case.index % 8 == 3
    if by_rate:
        # sized by ERROR RATE, a supplied hash strategy, a crowded little table, and reloads through a file (load_error_rate) and bytes
        cfg.by_error_rate(rng.choice([6, 9, 12, 17, 24]))
        cfg.capacity, cfg.bucket_size = rng.choice([3, 4, 5, 8]), rng.choice([1, 2, 2])
    keys = ck.with_zero_fp_keys(ctx, rng, cfg, ck.gen_keys(rng, cfg, rng.randint(3, 12) if not by_rate else cfg.capacity * cfg.bucket_size))
    if by_rate and cfg.hf is None:
        cfg.hf, cfg.hname = ck.md5_single, "hand_md5_single_value"
        keys = [k for k in keys if cfg.raw_fp(k) != 0]
    if len(keys) < 2:
        return
    ops = ck.gen_history(rng, keys, rng.randint(4, 14), p_remove=rng.choice([0.1, 0.25, 0.4]), p_expand=0.07, p_reload=0.1)
    if by_rate:
        ops = [("add", k) for k in keys] + [("reload", "path"), ("add", keys[0]), ("reload", "bytes")] + ops[:6]
        ctx.count("histories_sized_by_error_rate_with_a_supplied_hash_and_file_reloads")
    case.desc = dict(cfg.desc(), n_keys=len(keys))
    for op in ops:
        case.op(*op)
    ex, stats = explore(ctx, rng, case, cfg, keys, ops, 100 if ctx.tier == "quick" else 1500, extra=20 if ctx.tier == "quick" else 300)
    ctx.observe("capacities", cfg.capacity)
    ctx.observe("bucket_sizes", cfg.bucket_size)
    case.nontrivial = ex.decisions > 0 or stats["capacity_changes"] > 0 or stats["reloads"] > 0


def wl_remove_readd(ctx, rng, case):
    """aimed at 'no fingerprint stored twice' / 'presence test before insert': fill buckets, remove from a key's first bucket, add the key again"""
    if not ctx.state.get("icontract"):
        raise Inconclusive("icontract unavailable")
    cfg = ck.gen_cfg(rng)
    cfg.capacity = rng.choice([2, 3, 4, 5, 8])
    cfg.bucket_size = rng.choice([1, 2, 2, 3])
    cfg.max_swaps = rng.choice([1, 2, 4])
    keys = ck.with_zero_fp_keys(ctx, rng, cfg, ck.gen_keys(rng, cfg, rng.randint(5, 14)))
    if len(keys) < 4:
        return
    ops = []
    for k in keys:
        ops.append(("add", k))
    for _ in range(rng.randint(3, 12)):
        k = rng.choice(keys)
        ops.append(("remove", k))
        for k2 in rng.sample(keys, min(3, len(keys))):
            ops.append(("add", k2))
    ops = ops[:40]
    case.desc = dict(cfg.desc(), n_keys=len(keys), kind="fill, remove, re-add")
    for op in ops:
        case.op(*op)
    ex, stats = explore(ctx, rng, case, cfg, keys, ops, 60 if ctx.tier == "quick" else 800, extra=10 if ctx.tier == "quick" else 200)
    case.nontrivial = True


def wl_wide_fingerprints(ctx, rng, case):
    """plain filters sized by a very small error rate (33..43 fingerprint bits, wider than the 4-byte slot of the export format): the table stays
    well-formed in memory, and whenever an export goes through (every stored fingerprint happens to fit, or the exporter narrows them)
    the table LOADED from it is inspected under the same invariant"""
    if not ctx.state.get("icontract"):
        raise Inconclusive("icontract unavailable")
    cfg = ck.gen_cfg(rng, counting=False, allow_rate=False)
    cfg.by_error_rate(rng.choice([33, 34, 37, 40, 43]))
    cfg.capacity = rng.choice([3, 4, 5, 7, 8, 12])
    cfg.auto_expand = True
    keys = ck.gen_keys(rng, cfg, rng.randint(6, 16))
    if len(keys) < 3:
        return
    ops = [("add", k) for k in keys[: rng.randint(2, len(keys))]] + ck.gen_history(rng, keys, rng.randint(4, 12), p_remove=0.15, p_expand=0.05, p_reload=0.35)
    case.desc = dict(cfg.desc(), n_keys=len(keys), kind="fingerprints wider than the export slot")
    for op in ops:
        case.op(*op)
    ex, stats = explore(ctx, rng, case, cfg, keys, ops, 20 if ctx.tier == "quick" else 300, extra=4 if ctx.tier == "quick" else 40)
    ctx.count("wide_fingerprint_exports_loaded_and_inspected", stats["wide_fingerprint_exports_loaded_and_inspected"])
    ctx.count("exports_refused_for_fingerprints_wider_than_the_slot", stats["exports_refused_for_fingerprints_wider_than_the_slot"])
    case.nontrivial = True


def wl_big_loaded_tables(ctx, rng, case):
    """tables of more slots than any block a loader might read at once (9 000 .. 40 000 slots), with bucket sizes that divide no power of
    two as well as ones that do, obtained by loading an export through every loader: judged by the explicit invariant (and a few public
    calls under the icontract invariant)"""
    if not ctx.state.get("icontract"):
        raise Inconclusive("icontract unavailable")
    import probables as P

    counting = case.index % 2 == 0
    cap, bsz = rng.choice([(3000, 5), (4000, 3), (2500, 7), (10000, 3), (10000, 4), (9001, 1), (3000, 6), (5000, 8)])
    cls = P.CountingCuckooFilter if counting else P.CuckooFilter
    f = cls(capacity=cap, bucket_size=bsz, max_swaps=100, auto_expand=False, finger_size=4)
    n = min(2500, cap * bsz // 5)
    for i in range(n):
        f.add(f"big-{case.index}-{i % (n * 2 // 3 + 1)}")  # a third of the keys twice
    case.desc = {"cls": cls.__name__, "capacity": cap, "bucket_size": bsz, "additions": n, "kind": "big loaded table"}
    sc = bl.Scratch(ctx, case)
    contracts.new_case()
    try:
        p = sc.path("big")
        f.export(p)
        data = bytes(f)
        from pathlib import Path as _Path

        for lname, ld in (("frombytes", lambda: cls.frombytes(data)), ("filepath", lambda: cls(filepath=p)), ("filepath(Path)", lambda: cls(filepath=_Path(p))),
                          ("frombytes(memoryview)", lambda: cls.frombytes(memoryview(data))), ("frombytes(bytearray)", lambda: cls.frombytes(bytearray(data)))):
            try:
                try:
                    g = ld()
                except TypeError:
                    if "(" not in lname:
                        raise
                    ctx.count("buffer_loaders_refused")  # a loader may refuse a bytes-like buffer; if it accepts one it must load the same table
                    continue
                contracts.register(g, None, 2, counting)
                g.fingerprint_size = 4
            except contracts.InvariantBroken as e:
                ctx.fail(f"icontract invariant fired on a {cap}x{bsz} table while it was loaded via {lname}: {e}")
            probs = contracts.table_problems(g, contracts.REG[id(g)])
            ctx.counters["oracle_evaluations"] += 1
            if probs:
                ctx.fail(f"table of a {cap}x{bsz} filter loaded via {lname} is not well-formed: " + "; ".join(probs[:3]), problems=len(probs))
            ctx.check(g.capacity == cap and g.bucket_size == bsz and g.elements_added == f.elements_added, f"loaded {cap}x{bsz} filter ({lname}) has another shape or element count",
                      got=(g.capacity, g.bucket_size, g.elements_added), want=(cap, bsz, f.elements_added))
            try:
                g.check(f"big-{case.index}-0")
                g.add(f"big-{case.index}-1")
                g.remove(f"big-{case.index}-2")
            except contracts.InvariantBroken as e:
                ctx.fail(f"icontract invariant fired on a loaded {cap}x{bsz} table ({lname}): {e}")
            ctx.count("big_loaded_tables_judged")
    finally:
        contracts.unregister_all()
        sc.cleanup()
    case.nontrivial = True


def wl_long(ctx, rng, case):
    """long-lived tables under the invariant: 40-100 operations on tiny auto-expanding tables (several expansions, removals, reloads)"""
    if not ctx.state.get("icontract"):
        raise Inconclusive("icontract unavailable")
    cfg = ck.gen_cfg(rng)
    cfg.auto_expand = True
    cfg.capacity = rng.choice([1, 2, 3])
    cfg.bucket_size = rng.choice([1, 2, 2, 3])
    cfg.max_swaps = rng.choice([2, 3, 5, 8])
    nkeys, nops = rng.randint(20, 50), rng.randint(40, 100)
    if case.index % 3 == 1:
        # WIDE buckets (9 .. 24 slots) in a table of two or three buckets that cannot grow for a while: buckets fill up, kicks succeed inside
        # them, keys that are present are added again
        cfg.bucket_size, cfg.capacity, cfg.max_swaps = rng.randint(9, 24), rng.choice([2, 3]), rng.choice([5, 8, 20])
        cfg.auto_expand = rng.random() < 0.5
        nkeys = cfg.capacity * cfg.bucket_size + rng.randint(2, 10)
        nops = 3 * nkeys
        ctx.count("long_histories_on_wide_buckets")
    keys = ck.with_zero_fp_keys(ctx, rng, cfg, ck.gen_keys(rng, cfg, nkeys))
    if len(keys) < 10:
        return
    ops = ck.gen_history(rng, keys, nops, p_remove=0.25 if nops < 101 else 0.1, p_expand=0.03 if nops < 101 else 0.0, p_reload=0.05)
    case.desc = dict(cfg.desc(), n_keys=len(keys), kind="long history")
    for op in ops[:60]:
        case.op(*op)
    ex, stats = explore(ctx, rng, case, cfg, keys, ops, 1, extra=2 if ctx.tier == "quick" else 8)
    case.nontrivial = stats["capacity_changes"] > 0


def wl_repo_tests(ctx, rng, case):
    """the repository's own cuckoo tests as an additional realistic workload, run in a child pytest with the invariant attached"""
    import json
    import subprocess
    import sys
    import tempfile

    from .. import repo

    if not ctx.state.get("icontract"):
        raise Inconclusive("icontract unavailable")
    out = tempfile.mktemp(prefix="pv-contracts-", suffix=".json")
    tests = [os.path.join(repo.REPO_ROOT, "tests", t) for t in ("cuckoo_test.py", "countingcuckoo_test.py")]
    tests = [t for t in tests if os.path.exists(t)]
    if not tests:
        case.desc = {"skipped": "repository tests not found"}
        return
    env = dict(os.environ, PYTHONPATH=repo.VERIF_ROOT + os.pathsep + repo.REPO_ROOT, PV_CONTRACTS_OUT=out, VERIF_REPO=repo.REPO_ROOT, PYTHONDONTWRITEBYTECODE="1")
    r = subprocess.run([sys.executable, "-m", "pytest", "-q", "-x", "-p", "no:cacheprovider", "-p", "pv.pytest_contracts"] + tests, cwd=repo.REPO_ROOT, env=env,
                       capture_output=True, text=True, timeout=900)
    case.desc = {"kind": "repository cuckoo tests under the invariant", "pytest_exit": r.returncode}
    try:
        with open(out) as fh:
            res = json.load(fh)
        os.remove(out)
    except Exception:
        raise Inconclusive(f"pytest under contracts produced no summary: {r.stdout[-300:]} {r.stderr[-300:]}")
    ctx.count("repo_tests.invariant_evaluations_judged", res["judged"])
    if res["failures"]:
        ctx.fail("the table invariant fired while running the repository's own cuckoo tests: " + "; ".join(str(x) for x in res["failures"][:2]), pytest_tail=r.stdout[-600:])
    case.op("judged", res["judged"])
    case.nontrivial = res["judged"] > 0


def finish(cov, merged, tier):
    c = merged["counters"]
    cov["invariant_evaluations"] = int(c.get("icontract_invariant_evaluations_judged", 0)) + int(c.get("explicit_invariant_evaluations", 0))
    if tier == "thorough" and c.get("repo_tests.invariant_evaluations_judged", 0) <= 0:
        raise Inconclusive("the repository's cuckoo tests did not run under the invariant (thorough tier)")


PROP = Prop(
    "C15",
    "exploration",
    rule=("configurations and histories as in C03 (capacity 1..8, bucket 1..4, max_swaps 1..6, fingerprint 1..4 bytes, auto_expand on/off, rates 2..3, default "
          "or bucket-packing hash, plain or counting), plus fill / remove / re-add histories; every history is re-executed for every resolution of the "
          "eviction choices below the leaf cap (60-100 quick, 800-1 500 thorough) and with random resolutions beyond; reloads in the middle put loaded "
          "tables under the invariant. Non-trivial = at least one eviction decision, capacity change or reload. Distinct by hash of (configuration, history)."),
    workloads=[
        Workload("repo_tests", wl_repo_tests, quick=0, thorough=1),
        Workload("remove_readd", wl_remove_readd, quick=100, thorough=2500),
        Workload("histories", wl_histories, quick=200, thorough=4000),
        Workload("long", wl_long, quick=30, thorough=1500),
        Workload("big_loaded_tables", wl_big_loaded_tables, quick=6, thorough=60),
        Workload("wide_fingerprints", wl_wide_fingerprints, quick=48, thorough=1200),
    ],
    assumptions=["candidate buckets are recomputed independently: fp mod capacity and hash(str(fp)) mod capacity with the hash function the harness supplied "
                 "(reference FNV-1a for the default)", "invariants are evaluated at quiescent points: before/after public calls (icontract) and after every call (explicit)",
                 "only instances the harness registered are judged; others are counted"],
    setup=setup,
    finish=finish,
    shards={"quick": 6, "thorough": 16},
    required=["icontract_invariant_evaluations_judged", "explicit_invariant_evaluations", "decisions_taken", "capacity_changes", "reloads", "failed_adds", "universes_with_zero_fingerprint_keys"],
)
