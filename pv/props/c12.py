"""C12 - union and join equal the structure built from both streams.

Monitor shape: differential.  Two structures are fed streams A and B, a third one both; the union / join must be identical,
cell by cell (and total by total), to the single-stream structure.
"""
import os
from collections import Counter

from .. import bl, gen, refimpl
from ..core import Prop, Workload


def feed_bloom(f, stream):
    for k in stream:
        f.add(k)


def wl_bloom(ctx, rng, case):
    import probables as P

    est, rate, m, k = gen.bloom_geometry(rng)
    if case.index % 60 == 11:
        from .. import refimpl as _r
        est, rate = rng.choice([(20000, 0.01), (60000, 0.05), (9000, 1e-5), (70000, 0.01), (300000, 0.01)])  # several pages of bits, up to 350 KiB
        m, k = _r.bloom_sizing_simple(est, rate)
        ctx.count("large_bloom_pairs")
    aligned = case.index % 15 == 7 and (ctx.tier == "quick" or case.index % 120 == 7)  # (thorough: 1 500 of them - they are the slow ones)
    if aligned:
        # bit arrays whose length is an exact multiple of a power-of-two block size (512 .. 64 KiB): no remainder after the last whole block
        est, rate, m, k = gen.aligned_geometry(rng, max_len=140000)
        ctx.count("block_aligned_bloom_pairs")
        ctx.observe("block_aligned_lengths", (m + 7) // 8, cap=200)
    keys = gen.universe(rng, rng.randint(2, 20))
    hname, hf = gen.pick_hash(rng, keys)
    A = [rng.choice(keys) for _ in range(rng.randint(0, 12))]
    B = [rng.choice(keys) for _ in range(rng.randint(0, 12))]
    if rng.random() < 0.12:
        B = list(A)
        ctx.count("identical_content_operand_pairs")
    disk = (rng.random() < 0.35, rng.random() < 0.35)
    if case.index % 30 == 5 and not aligned:
        # est_elements given as a non-integral number (the constructor accepts any Number > 0); such filters live in memory only
        from .. import refimpl as _r
        for _ in range(40):
            est_f = est + rng.choice([0.2, 0.5, 0.75, 0.999])
            mk = _r.bloom_sizing_simple(est_f, rate)
            if mk and mk[1] >= 1:
                est, (m, k), disk = est_f, mk, (False, False)
                ctx.count("fractional_est_operand_pairs")
                break
    case.desc = {"kind": "bloom", "est": est, "rate": rate, "bits": m, "hashes": k, "hash": hname, "on_disk": disk, "A": A, "B": B}
    ctx.observe("operand_placement", str(disk))
    ctx.observe("bits_mod_8", m % 8)
    sc = bl.Scratch(ctx, case)
    objs = []
    try:
        paths = {}

        def mk(on_disk):
            if on_disk:
                p = sc.path("op")
                o = P.BloomFilterOnDisk(p, est, rate, **bl.kw_hash(hf))
                paths[id(o)] = p
            else:
                o = P.BloomFilter(est, rate, **bl.kw_hash(hf))
            objs.append(o)
            return o

        def reloaded(o):
            """the same contents in another reachable state: loaded from its own export / closed and reopened"""
            if id(o) in paths:
                p = paths[id(o)]
                o.close()
                n = P.BloomFilterOnDisk(p, **bl.kw_hash(hf))
                paths[id(n)] = p
            elif isinstance(est, int):
                n = P.BloomFilter.frombytes(bytes(o), **bl.kw_hash(hf)) if rng.random() < 0.5 else P.BloomFilter(hex_string=o.export_hex(), **bl.kw_hash(hf))
            else:
                return o
            objs.append(n)
            ctx.count("operands_reloaded_before_the_union")
            return n

        def from_shards(stream, on_disk):
            """the same contents reached another way: two shards fed half of the stream each, united, the result exported and opened again
            (on disk or in memory) - its element count is then an ESTIMATE of its bits, not the number of additions behind them"""
            h = len(stream) // 2
            s1, s2 = mk(False), mk(False)
            feed_bloom(s1, stream[:h])
            feed_bloom(s2, stream[h:])
            u = s1.union(s2)
            if u is None or u.elements_added < 0:
                return None
            p = sc.path("shards")
            u.export(p)
            if on_disk:
                o = P.BloomFilterOnDisk(p, **bl.kw_hash(hf))
                paths[id(o)] = p
            else:
                o = P.BloomFilter(filepath=p, **bl.kw_hash(hf))
            objs.append(o)
            ctx.count("operands_that_are_reopened_unions_of_shards")
            return o

        sA, sB, sAB = mk(disk[0]), mk(disk[1]), mk(False)
        feed_bloom(sA, A)
        feed_bloom(sB, B)
        feed_bloom(sAB, A + B)
        if isinstance(est, int) and rng.random() < 0.3:
            sA = from_shards(A, disk[0]) or sA
        if isinstance(est, int) and rng.random() < 0.3:
            sB = from_shards(B, disk[1]) or sB
        if rng.random() < 0.1 and sA.elements_added > 0:
            # the element count is writable: a count lowered by the application (it need not be the number of additions behind the bits)
            sA.elements_added = rng.randint(0, sA.elements_added)
            ctx.count("operands_whose_count_was_lowered_through_the_setter")
        if m > 8 * 30000 or aligned:
            bl.dense_fill(rng, [[sA, sAB], [sB, sAB]], m, k)  # large arrays: (nearly) every byte carries a bit in some operand
            ctx.count("large_pairs_filled_densely")
        if rng.random() < 0.2:
            sA = reloaded(sA)
        if rng.random() < 0.2:
            sB = reloaded(sB)
        # unsaturated states only (a completely set array has no defined element estimate)
        if bl.bits_of(sAB).count(b"\xff"[0]) == len(bl.bits_of(sAB)) and m % 8 == 0:
            ctx.count("skipped_saturated")
            return
        for first, second, tag in ((sA, sB, "A.union(B)"), (sB, sA, "B.union(A)")):
            res = first.union(second)
            ctx.check(res is not None, f"{tag} of same-geometry same-hash filters returned None")
            ctx.check(bl.bits_of(res) == bl.bits_of(sAB), f"bit array of {tag} differs from the filter fed both streams",
                      got=bl.bits_of(res), want=bl.bits_of(sAB))
            ctx.check((res.number_bits, res.number_hashes, res.estimated_elements) == (m, k, est), f"{tag} has another geometry")
            for key in keys:
                if sA.check(key) or sB.check(key):
                    ctx.check(res.check(key), f"{tag} does not report a key an operand reports", key=key)
                ctx.check(res.check(key) == sAB.check(key), f"{tag} answers differently from the single-stream filter", key=key)
            ctx.count("unions_compared")
            # no aliasing between the result and its operands
            snapA, snapB, snapR = bl.bits_of(sA), bl.bits_of(sB), bl.bits_of(res)
            res.add("only-in-the-result")
            ctx.check(bl.bits_of(sA) == snapA and bl.bits_of(sB) == snapB, f"adding to the result of {tag} changed an operand (shared storage)")
            snapR = bl.bits_of(res)
            first.add("only-in-the-first-operand-later")
            ctx.check(bl.bits_of(res) == snapR, f"adding to an operand after {tag} changed the earlier result (shared storage)")
            sAB.add("only-in-the-first-operand-later") if first is sA else None
            if first is sB:
                sAB.add("only-in-the-first-operand-later")
            ctx.count("aliasing_checks")
        # ---- the file NAME of an open on-disk operand is taken over by another file (a fresh filter published under the same name by
        # write-then-rename while this one is still open): the open operand is what its handle holds, not what the name now points at
        for o in (sA, sB):
            if id(o) in paths and rng.random() < 0.5:
                newer = mk(False)
                newer.add("only-in-the-file-that-took-over-the-name")
                tmp = sc.path("published")
                newer.export(tmp)
                os.replace(tmp, paths[id(o)])
                other = sB if o is sA else sA
                for tag, res in (("open_operand.union(other)", o.union(other)), ("other.union(open_operand)", other.union(o))):
                    ctx.check(res is not None, f"{tag} returned None after the operand's file name was taken over by another file")
                    for key in keys + ["only-in-the-first-operand-later", "only-in-the-result"]:
                        if o.check(key) or other.check(key):
                            ctx.check(res.check(key), f"{tag} does not report a key an operand reports (the open operand's file name now belongs to another file)", key=key)
                ctx.count("unions_with_an_open_operand_whose_name_was_taken_over")
                break
        case.nontrivial = len(set(A)) >= 1 and len(set(B)) >= 1
    finally:
        for o in objs:
            if hasattr(o, "close"):
                try:
                    o.close()
                except Exception:
                    pass
        sc.cleanup()


def wl_coincident(ctx, rng, case):
    """operands built from DIFFERENT (est_elements, rate) requests that derive the SAME bits / hashes: compatible, so their union (plain and
    counting, both orders, in memory and on disk) must be the structure fed both streams"""
    import probables as P

    found = gen.same_geometry_pair(rng, max_bits=4000)
    if not found:
        return
    n, p, n2, p2, (m, k) = found
    keys = gen.universe(rng, rng.randint(2, 14))
    hname, hf = gen.pick_hash(rng, keys)
    A = [rng.choice(keys) for _ in range(rng.randint(1, 10))]
    B = [rng.choice(keys) for _ in range(rng.randint(1, 10))]
    counting = rng.random() < 0.4
    disk = rng.random() < 0.3 and not counting
    case.desc = {"kind": "coincident geometry", "a": (n, p), "b": (n2, p2), "bits": m, "hashes": k, "hash": hname, "counting": counting, "A": A, "B": B}
    sc = bl.Scratch(ctx, case)
    objs = []
    try:
        cls = P.CountingBloomFilter if counting else P.BloomFilter
        sA = cls(n, p, **bl.kw_hash(hf))
        sB = P.BloomFilterOnDisk(sc.path("b"), n2, p2, **bl.kw_hash(hf)) if disk else cls(n2, p2, **bl.kw_hash(hf))
        objs.append(sB)
        refs = {"a": cls(n, p, **bl.kw_hash(hf)), "b": cls(n2, p2, **bl.kw_hash(hf))}
        for x in A:
            sA.add(x)
            refs["a"].add(x), refs["b"].add(x)
        for x in B:
            sB.add(x)
            refs["a"].add(x), refs["b"].add(x)
        ctx.check((sA.number_bits, sA.number_hashes) == (sB.number_bits, sB.number_hashes) == (m, k), "the two requests do not derive the same geometry", a=(sA.number_bits, sA.number_hashes), b=(sB.number_bits, sB.number_hashes))
        cells = bl.cells_of if counting else bl.bits_of
        for first, second, tag in ((sA, sB, "a.union(b)"), (sB, sA, "b.union(a)")):
            res = first.union(second)
            ctx.check(res is not None, f"{tag} of two filters with the same bits, hashes and strategy returned None", a=(n, p), b=(n2, p2))
            ctx.check((res.number_bits, res.number_hashes) == (m, k), f"{tag} has another geometry than its operands", got=(res.number_bits, res.number_hashes), want=(m, k))
            ctx.check(cells(res) == cells(refs["a"]), f"array of {tag} differs from the filter fed both streams (operands sized by different requests)")
            for key in A + B:
                ctx.check(res.check(key), f"{tag} does not report a key an operand reports (operands sized by different requests)", key=key)
            ctx.count("unions_compared")
            ctx.count("coincident_geometry_unions")
        case.nontrivial = True
    finally:
        for o in objs:
            if hasattr(o, "close"):
                try:
                    o.close()
                except Exception:
                    pass
        sc.cleanup()


def legit_stream(rng, keys, n, big=None, amounts=(1, 1, 2, 3, 7, 100, 256, 65536)):
    """list of (op, key, amount) where removals never exceed the key's outstanding count within the stream"""
    out, cnt = [], Counter()
    for _ in range(n):
        k = rng.choice(keys)
        if cnt[k] and rng.random() < 0.3:
            a = rng.randint(1, cnt[k])
            out.append(("remove", k, a))
            cnt[k] -= a
        else:
            a = rng.choice(amounts)
            out.append(("add", k, a))
            cnt[k] += a
    if big:
        k = rng.choice(keys)
        out.insert(rng.randint(0, len(out)), ("add", k, big))
        cnt[k] += big
    return out, cnt


def apply_stream(s, stream):
    for op, k, a in stream:
        getattr(s, op)(k, a)


def wl_counting(ctx, rng, case):
    import probables as P

    est, rate, m, k = gen.bloom_geometry(rng, max_bits=4000)
    aligned = case.index % 25 == 9
    if aligned:
        est, rate, m, k = gen.aligned_geometry(rng, counting=True)  # a counter array of an exact multiple of 512 (some of 4096) cells
        ctx.count("block_aligned_counting_pairs")
    keys = gen.universe(rng, rng.randint(2, 16))
    hname, hf = gen.pick_hash(rng, keys)
    # sometimes one large amount per operand: counts beyond the signed 32-bit range but (unless positions coincide) below the counter limit
    bigA, bigB = rng.choice([(None, None)] * 8 + [(2**31 - 10, None), (None, 2**31 + 5), (2**31 - 10, 2**31 - 700), (3 * 10**9, 10**9),
                                                    (2**31 + 1, 2**31 + 7), (3 * 10**9, 2 * 10**9), (2**32 - 5, 2**31)])
    if bigA and bigB and not aligned and rng.random() < 0.7:
        # both operands hold a counter beyond 2^31 (for different keys, as a rule at different positions): in filters of SEVERAL THOUSAND
        # counters, so that the two sit anywhere in the array
        est, rate, m, k = gen.bloom_geometry(rng, small=False, max_bits=12000)
        ctx.count("counting_pairs_with_huge_counters_in_both_operands_of_a_long_array")
    A, cA = legit_stream(rng, keys, rng.randint(0, 14), bigA)
    B, cB = legit_stream(rng, keys, rng.randint(0, 14), bigB)
    if rng.random() < 0.15:
        B, cB = list(A), Counter(cA)  # two operands with IDENTICAL contents (fed the same multiset)
        ctx.count("identical_content_operand_pairs")
    case.desc = {"kind": "counting", "est": est, "rate": rate, "hash": hname, "A": A, "B": B}
    sA = P.CountingBloomFilter(est, rate, **bl.kw_hash(hf))
    sB = P.CountingBloomFilter(est, rate, **bl.kw_hash(hf))
    sAB = P.CountingBloomFilter(est, rate, **bl.kw_hash(hf))
    apply_stream(sA, A)
    apply_stream(sB, B)
    apply_stream(sAB, A + B)
    sAA = P.CountingBloomFilter(est, rate, **bl.kw_hash(hf))
    apply_stream(sAA, A + A)
    if aligned:
        bl.dense_fill(rng, [[sA, sAB, sAA, sAA], [sB, sAB]], m, k)
    if rng.random() < 0.2:
        sA = P.CountingBloomFilter.frombytes(bytes(sA), **bl.kw_hash(hf))  # an operand loaded from its own export
        ctx.count("operands_reloaded_before_the_union")
    if rng.random() < 0.2:
        sB = P.CountingBloomFilter(hex_string=sB.export_hex(), **bl.kw_hash(hf))
        ctx.count("operands_reloaded_before_the_union")
    if all(c > 0 for c in bl.cells_of(sAB)) or max(bl.cells_of(sAB)) >= 2**32 - 1:
        ctx.count("skipped_saturated")  # every counter in use, or a counter at its limit: outside the statement
        return
    if max(bl.cells_of(sAB)) > 2**31 - 1:
        ctx.count("counting_unions_with_counters_beyond_int32")
    for first, second, tag in ((sA, sB, "A.union(B)"), (sB, sA, "B.union(A)")):
        res = first.union(second)
        ctx.check(res is not None, f"counting {tag} returned None")
        ctx.check(bl.cells_of(res) == bl.cells_of(sAB), f"counters of counting {tag} differ from the filter fed both streams",
                  got=bl.cells_of(res)[:64], want=bl.cells_of(sAB)[:64])
        for key in keys:
            ctx.check(res.check(key) >= cA[key] + cB[key], f"counting {tag} estimates below the sum of the operands' true counts", key=key,
                      got=res.check(key), want=cA[key] + cB[key])
            ctx.check(res.check(key) == sAB.check(key), f"counting {tag} answers differently from the single-stream filter", key=key)
        ctx.count("unions_compared")
    # a filter united with ITSELF equals the filter fed its stream twice
    if not all(c > 0 for c in bl.cells_of(sAA)) and max(bl.cells_of(sAA)) < 2**32 - 1:
        res = sA.union(sA)
        ctx.check(res is not None and bl.cells_of(res) == bl.cells_of(sAA), "counters of a.union(a) differ from the filter fed a's stream twice",
                  got=bl.cells_of(res)[:32] if res is not None else None, want=bl.cells_of(sAA)[:32])
        ctx.count("self_unions_compared")
    case.nontrivial = bool(A) and bool(B)


def wl_join(ctx, rng, case):
    import probables as P

    keys = gen.universe(rng, rng.randint(2, 14))
    hname, hf = gen.pick_hash(rng, keys)
    cls_name = rng.choice(["CountMinSketch", "CountMinSketch", "CountMeanSketch", "CountMeanMinSketch"])
    cls = getattr(P, cls_name)
    other_cls = getattr(P, rng.choice(["CountMinSketch", cls_name]))
    width, depth = rng.choice([1, 2, 3, 5, 8, 50, 1000]), rng.randint(1, 6)
    if case.index % 70 == 3:
        width, depth = rng.choice([(8192, 8), (16384, 4), (70001, 1), (9000, 8), (33000, 2)])  # 65 536 counters and more
        ctx.count("joins_of_sketches_with_65536_counters_or_more")
    if "MeanMin" in cls_name + other_cls.__name__:
        width = max(width, 2)  # the mean-min query divides by width-1 (as the C original does): width 1 is outside its domain
    A, cA = legit_stream(rng, keys, rng.randint(0, 14))
    B, cB = legit_stream(rng, keys, rng.randint(0, 14))
    if rng.random() < 0.12:
        B, cB = list(A), Counter(cA)
        ctx.count("identical_content_operand_pairs")
    if rng.random() < 0.15:
        # a SPARSE argument for a wide receiver: a handful of counters in use, their values with zero low bytes (multiples of 256 / 65536)
        # or just beside them, the argument's total below the width
        width = rng.choice([1000, 2048, 4099])
        B, cB = legit_stream(rng, keys, rng.randint(1, 3), amounts=(256, 256, 512, 768, 255, 257, 1, 300, 65536, 2 * 65536, 2**24))
        ctx.count("sparse_join_arguments_for_a_wide_receiver")
    arbitrary = rng.random() < 0.35
    if arbitrary:
        # any state the API can reach: removals of keys never added / over-removals (negative counters, totals that net to zero)
        for stream in (A, B):
            for _ in range(rng.randint(1, 3)):
                stream.insert(rng.randint(0, len(stream)), ("remove", rng.choice(keys + ["never-added"]), rng.choice([1, 2, 3, 3, 7])))
        if rng.random() < 0.5 and B:
            tot = sum(a if op == "add" else -a for op, _, a in B)
            if tot > 0:
                B.append(("remove", rng.choice(keys + ["never-added"]), tot))  # the argument's total nets to exactly zero
                ctx.count("join_argument_with_zero_total_but_nonzero_cells")
    near_limit = arbitrary and rng.random() < 0.3
    if near_limit:
        # the receiver holds counters ONE SHORT of a 32-bit limit (not pinned: -2^31+1, 2^31-2) and the argument adds a little to the same
        # key; cases in which a counter of any of the three sketches reaches a limit on the way are outside the statement and are dropped
        kx = rng.choice(keys)
        A.insert(0, ("remove", kx, 2**31 - 1) if rng.random() < 0.6 else ("add", kx, 2**31 - 2))
        B.append(("add", kx, rng.randint(1, 9)) if A[0][0] == "remove" else ("remove", kx, rng.randint(1, 9)))
    case.desc = {"kind": "join", "cls": cls_name, "other": other_cls.__name__, "width": width, "depth": depth, "hash": hname, "A": A, "B": B}
    sA = cls(width=width, depth=depth, **bl.kw_hash(hf))
    sB = other_cls(width=width, depth=depth, **bl.kw_hash(hf))
    sAB = cls(width=width, depth=depth, **bl.kw_hash(hf))
    apply_stream(sA, A)
    apply_stream(sB, B)
    apply_stream(sAB, A + B)
    if near_limit:
        # exact running values of every counter along A, along B and along A then B: a case in which any of them reaches a limit is dropped
        def reaches_a_limit(stream):
            run = Counter()
            for op, kx_, a in stream:
                for i, h in enumerate(sAB.hashes(kx_)):
                    c = (h % width) + i * width
                    run[c] += a if op == "add" else -a
                    if run[c] <= -2**31 or run[c] >= 2**31 - 1:
                        return True
            return False

        if reaches_a_limit(A) or reaches_a_limit(B) or reaches_a_limit(A + B):
            ctx.count("join_cases_dropped_because_a_counter_reached_a_limit")
            return
        ctx.count("joins_with_receiver_counters_one_short_of_a_limit")
    if rng.random() < 0.2:
        sA = cls.frombytes(bytes(sA), **bl.kw_hash(hf))  # receiver / argument loaded from their own exports
        ctx.count("operands_reloaded_before_the_join")
    if rng.random() < 0.2:
        sB = other_cls.frombytes(bytes(sB), **bl.kw_hash(hf))
        ctx.count("operands_reloaded_before_the_join")
    b_before = bytes(sB)
    if rng.random() < 0.3:
        # a join that is REFUSED (mismatched, non-empty argument) must leave the receiver as it was: the join proper follows
        w2, d2 = rng.choice([(width + 1, depth), (width, depth + 1), (max(1, (width * depth) // (depth + 1)), depth + 1)])
        bad = P.CountMinSketch(width=max(w2, 2), depth=d2, **bl.kw_hash(hf))
        if depth >= 2 and rng.random() < 0.5:
            # ... or of the SAME shape with a hash strategy that agrees with the receiver's on the leading rows and differs further down
            from probables.hashes import default_fnv_1a as _dflt

            odd = gen.DerivedHash(hf or _dflt, rng.choice(["first_only", "all_but_last"]), depth_at=depth)
            bad = P.CountMinSketch(width=width, depth=depth, hash_function=odd)
            ctx.count("refused_joins_with_a_strategy_that_agrees_on_the_leading_rows")
            if rng.random() < 0.6:
                # both strategy OBJECTS have been seen before by shallower sketches (legitimate joins of depth 1 .. depth-1 among sketches that
                # share a strategy): whatever the library learnt about a strategy there must not decide the deeper comparison
                for strat in (odd, hf or _dflt):
                    d0 = rng.randint(1, depth - 1)
                    s1, s2 = P.CountMinSketch(width=width, depth=d0, hash_function=strat), P.CountMinSketch(width=width, depth=d0, hash_function=strat)
                    s2.add(rng.choice(keys), 2)
                    s1.join(s2)
                ctx.count("strategies_used_by_shallower_sketches_before_the_refused_join")
        for kx in rng.sample(keys, min(3, len(keys))):
            bad.add(kx, rng.choice([1, 5, 1700]))
        try:
            sA.join(bad)
            ctx.count("mismatched_joins_that_were_accepted")
        except Exception:
            ctx.count("refused_joins_before_the_join")
    sA.join(sB)
    ctx.check(bytes(sA) == bytes(sAB), "counters/total after join differ from the sketch fed both streams",
              got=refimpl.parse_cms(bytes(sA)), want=refimpl.parse_cms(bytes(sAB)))
    want_total = sum(a if op == "add" else -a for op, _, a in A + B)
    ctx.check(sA.elements_added == want_total, "element total after join is not the sum of both totals", got=sA.elements_added, want=want_total)
    ctx.check(bytes(sB) == b_before, "join modified its argument")
    sA.query_type = "min"
    if not arbitrary:
        for key in keys:
            ctx.check(sA.check(key) >= cA[key] + cB[key], "estimate after join below the sum of the operands' true counts", key=key, got=sA.check(key), want=cA[key] + cB[key])
    ctx.count("joins_compared")
    if near_limit:
        case.nontrivial = True
        return  # (the chained joins below feed a stream twice: with counters one short of a limit that is past the limit)
    # the receiver of that join becomes the ARGUMENT of further joins: into a fresh sketch (which must then hold both streams) and
    # into a sketch loaded from an export of the first operand's own stream
    total = cls(width=width, depth=depth, **bl.kw_hash(hf))
    total.join(sA)
    ctx.check(bytes(total) == bytes(sAB), "a fresh sketch that joins the result of an earlier join does not hold both streams",
              got=refimpl.parse_cms(bytes(total)), want=refimpl.parse_cms(bytes(sAB)))
    # ... and the two stay SEPARATE objects: what happens to one afterwards does not reach the other, in either direction
    snap_arg, snap_recv = bytes(sA), bytes(total)
    total.add(rng.choice(keys), 3)
    ctx.check(bytes(sA) == snap_arg, "adding to a sketch that had joined another one (as an empty receiver) changed that other sketch (shared storage)")
    snap_recv = bytes(total)
    sA.add(rng.choice(keys), 2)
    ctx.check(bytes(total) == snap_recv, "adding to the argument of an earlier join changed the receiver (shared storage)")
    sA = cls.frombytes(snap_arg, **bl.kw_hash(hf))  # (back to the joined state for the steps below)
    sA.query_type = "min"
    ctx.count("aliasing_checks")
    onlyA = cls(width=width, depth=depth, **bl.kw_hash(hf))
    apply_stream(onlyA, A)
    restored = cls.frombytes(bytes(onlyA), **bl.kw_hash(hf))
    restored.join(sA)
    twice = cls(width=width, depth=depth, **bl.kw_hash(hf))
    apply_stream(twice, A + A + B)
    ctx.check(bytes(restored) == bytes(twice), "a loaded sketch that joins the result of an earlier join differs from the sketch fed all streams",
              got=refimpl.parse_cms(bytes(restored)), want=refimpl.parse_cms(bytes(twice)))
    ctx.count("chained_joins_compared")
    # a sketch joined with ITSELF equals the sketch fed its stream twice
    s1 = cls(width=width, depth=depth, **bl.kw_hash(hf))
    s2 = cls(width=width, depth=depth, **bl.kw_hash(hf))
    apply_stream(s1, B)
    apply_stream(s2, B + B)
    s1.join(s1)
    ctx.check(bytes(s1) == bytes(s2), "a sketch joined with itself differs from the sketch fed its stream twice")
    ctx.count("self_joins_compared")
    case.nontrivial = bool(A) and bool(B)


PROP = Prop(
    "C12",
    "exploration",
    rule=("three structures per case: fed stream A, stream B, and A then B (streams of additions with legitimate removals for the counting kinds); "
          "Bloom union in both orders with operands in memory / on disk in either position, counting-Bloom union in both orders, count-min join "
          "(min / mean / mean-min classes, receiver and argument of possibly different class). Geometry, hash strategy and streams from the case RNG. "
          "Non-trivial = both streams non-empty; distinct by hash of (parameters, streams)."),
    workloads=[
        Workload("bloom", wl_bloom, quick=900, thorough=180000),
        Workload("counting", wl_counting, quick=500, thorough=120000),
        Workload("join", wl_join, quick=700, thorough=150000),
        Workload("coincident", wl_coincident, quick=120, thorough=20000),
    ],
    assumptions=["unsaturated states only, as the statement says (cases whose combined array is completely set are skipped and counted)"],
    required=["unions_compared", "joins_compared", "join_argument_with_zero_total_but_nonzero_cells", "aliasing_checks", "identical_content_operand_pairs", "self_unions_compared", "self_joins_compared",
              "block_aligned_bloom_pairs", "block_aligned_counting_pairs"],
)
