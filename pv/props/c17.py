"""C17 - heavy-hitter and threshold tables are consistent with the returned estimates.

Monitor shape: history + model of the last value each key's add/remove RETURNED.  After every call the tracking table is
compared with what those returned values imply.
"""
from collections import Counter

from .. import bl, gen
from ..core import Inconclusive, Prop, Workload


import os

QTYPES_HH = os.environ.get("PV_HH_QTYPES", "min,min,min,mean,mean-min").split(",")


def check_hh(ctx, hh, last, H, where, floor_clause=True):
    table = hh.heavy_hitters
    ctx.counters["oracle_evaluations"] += 1
    want_n = min(H, len(last))
    if len(table) != want_n:
        ctx.fail(f"heavy_hitters tracks {len(table)} keys, expected min(number_heavy_hitters, distinct keys seen) = {want_n} {where}", table=dict(table), last=dict(last))
    for k, v in table.items():
        if k not in last or v != last[k]:
            ctx.fail(f"a tracked key's value differs from the estimate returned by its most recent add {where}", key=k, tracked=v, last=last.get(k), table=dict(table))
    if table and floor_clause:
        smallest = min(table.values())
        for k, v in last.items():
            if k not in table and v > smallest:
                ctx.fail(f"an untracked key's most recent estimate exceeds the smallest tracked one {where}", key=k, estimate=v, smallest=smallest, table=dict(table))
    ctx.check(hh.number_heavy_hitters == H, f"number_heavy_hitters changed {where}")


def wl_heavy(ctx, rng, case):
    import probables as P
    from probables.exceptions import NotSupportedError

    keys = gen.ascii_universe(rng, rng.randint(3, 10)) if rng.random() < 0.6 else [k for k in gen.universe(rng, rng.randint(3, 10), kinds=("str",))]
    if rng.random() < 0.25:
        keys = keys + [gen.to_bytes(k) for k in rng.sample(keys, min(len(keys), 3))]  # twins: "k1" and b"k1" are distinct keys (same counters)
        ctx.count("universes_with_text_and_bytes_spellings")
    H = rng.randint(1, 4)
    width, depth = rng.choice([1, 2, 3, 4, 5, 50]), rng.randint(1, 3)
    if rng.random() < 0.25:
        width, depth = rng.randint(1, 70), rng.randint(1, 6)
    many = case.index % 12 == 5
    if many:
        # BIG tables: 5 .. 80 hitters (every size is drawn somewhere) over a universe a third larger, on a roomy sketch so that estimates differ
        H = rng.choice([rng.randint(5, 80), 16, 31, 32, 33, 48, 64])
        keys = [f"hk{i}" for i in range(int(H * rng.choice([1.3, 2, 3])) + 4)]
        width, depth = rng.choice([200, 1000, 5000]), rng.randint(2, 4)
        ctx.count("heavy.histories_with_many_hitters")
    hname, hf = gen.pick_hash(rng, keys)
    case.desc = {"kind": "heavy", "hitters": H, "width": width, "depth": depth, "hash": hname, "n_keys": len(keys)}
    ctx.observe("widths", width)
    ctx.observe("hitters", H)
    hh = P.HeavyHitters(num_hitters=H, width=width, depth=depth, **bl.kw_hash(hf))
    qtype = rng.choice(QTYPES_HH)
    if qtype == "mean-min" and width < 2:
        qtype = "mean"
    if qtype != "min":
        hh.query_type = qtype  # a configuration corner: the estimates the table works with are then means
        ctx.count(f"heavy.query_type.{qtype}")
    case.desc["query_type"] = qtype
    last = {}
    evictions = 0
    # how often the table is READ: after every call, or only after every 2nd..5th (several table-changing calls between two reads)
    every = rng.choice([1, 1, 1, 2, 3, 5])
    case.desc["table_read_every"] = every
    n_steps = rng.randint(5, 60) if not many else rng.randint(8 * H, 30 * H)
    if rng.random() < 0.04:
        # the element total is driven to its 64-bit limit first: later additions leave it unchanged while the table keeps changing
        k0 = rng.choice(keys)
        case.op("add", k0, 2**63 - 1 - rng.randint(0, 2))
        last[k0] = hh.add(k0, case.ops[-1][2])
        ctx.count("heavy.histories_with_total_at_int64_limit")
    for step in range(n_steps):
        bl.noise_reads(ctx, rng, hh, keys)
        r = rng.random()
        if many and not 0.05 <= r < 0.93 and rng.random() < 0.9:
            r = 0.5  # (big tables live long: refusals, clears and reloads are ten times rarer there)
        if r < 0.05:
            # an addition the sketch REFUSES (an amount that is no integer, a hash list deeper than the sketch): no estimate is returned, so
            # the table still follows the most recent estimates that WERE returned - now and through every later addition
            k = rng.choice([x for x in keys if x not in last] or keys)
            how = rng.choice(["float amount", "None amount", "deeper hash list"])
            case.op("add-refused", k, how)
            try:
                if how == "float amount":
                    ret = hh.add(k, 2.0)
                elif how == "None amount":
                    ret = hh.add(k, None)
                else:
                    ret = hh.add_alt(k, list(hh.hashes(k)) + [7, 11], 1)
                last[k] = ret  # an implementation that accepts the call has performed an addition
            except Exception:
                ctx.count("heavy.refused_additions")
                if len(last) < H:
                    ctx.count("heavy.refused_additions_while_the_table_is_filling")
        elif r < 0.93:
            k = rng.choice(keys)
            n = rng.choice([1, 1, 1, 2, 3, 10] if not many else [1, 1, 1, 1, 1, 2]) if rng.random() < 0.93 else 0  # an add of nothing still returns an estimate the table must follow
            if many:
                # big tables: first the residents arrive (one add each, a few light ones among many heavy ones), then newcomers climb in
                # RUNS of single additions (the same key several times in a row), meeting the lightest tracked keys again and again
                if step < H:
                    k, n = keys[step], (rng.choice([2, 3, 4]) if step == 0 else rng.choice([6, 7, 8]) if step == 1 else rng.choice([10, 10, 10, 12, 9]))
                elif step > H and rng.random() < 0.6 and case.ops and case.ops[-1][0] in ("add", "add_alt"):
                    k, n = case.ops[-1][1], 1
                else:
                    k, n = rng.choice(keys[H:] + keys[:3]), 1
            was_tracked = set(hh.heavy_hitters) if every == 1 else set()
            if rng.random() < 0.85:
                case.op("add", k, n)
                ret = hh.add(k, n)
            else:
                case.op("add_alt", k, n)
                arg, cp = bl.alt_arg(ctx, hh.hashes(k))
                ret = hh.add_alt(k, arg, n)
                bl.arg_unchanged(ctx, arg, cp, "add_alt")
            last[k] = ret
            if qtype != "mean-min":
                ctx.check(ret == hh.check(k), f"value returned by add differs from check() at step {step}", key=k, returned=ret)
            if every == 1 and was_tracked - set(hh.heavy_hitters):
                evictions += 1
                ctx.count("evictions_observed")
            ctx.count("op.add")
        elif r < 0.96:
            case.op("clear")
            hh.clear()
            last = {}
            ctx.count("op.clear")
        elif r < 0.98:
            case.op("reload")
            hh = P.HeavyHitters.frombytes(bytes(hh), num_hitters=H, **bl.kw_hash(hf))
            last = {}  # the tracking table is not part of the format
            ctx.count("op.reload")
        else:
            case.op("remove-refused")
            try:
                hh.remove(rng.choice(keys))
                ctx.fail("HeavyHitters.remove did not raise NotSupportedError")
            except NotSupportedError:
                pass
        # with the mean-min query estimates are not monotone, so the "no untracked key above the smallest tracked one" clause cannot be
        # kept by any table that is only updated on a key's own add (it fails on the unchanged tree too); the size and the
        # tracked-value clauses are independent of the query type and are checked for all three
        if step % every and step != n_steps - 1:
            ctx.count("steps_between_two_table_reads")
            continue
        check_hh(ctx, hh, last, H, f"after step {step} ({case.ops[-1][0]}), {qtype} query, table read every {every} steps", floor_clause=(qtype != "mean-min"))
        ctx.count("table_comparisons")
    case.nontrivial = len(last) > H or evictions > 0


def check_st(ctx, st, last, T, where):
    table = st.meets_threshold
    want = {k: v for k, v in last.items() if v >= T}
    ctx.counters["oracle_evaluations"] += 1
    if dict(table) != want:
        ctx.fail(f"meets_threshold differs from the keys whose most recent add/remove returned >= threshold {where}",
                 table=dict(table), want=want, threshold=T, last=dict(last))
    ctx.check(st.threshold == T, f"threshold changed {where}")


def wl_threshold(ctx, rng, case):
    import probables as P

    keys = gen.ascii_universe(rng, rng.randint(2, 8)) if rng.random() < 0.6 else [k for k in gen.universe(rng, rng.randint(2, 8), kinds=("str",))]
    if rng.random() < 0.25:
        keys = keys + [gen.to_bytes(k) for k in rng.sample(keys, min(len(keys), 3))]
        ctx.count("universes_with_text_and_bytes_spellings")
    T = rng.randint(1, 8)
    width, depth = rng.choice([1, 1, 2, 3, 4, 5, 50]), rng.randint(1, 3)
    if rng.random() < 0.25:
        width, depth = rng.randint(1, 70), rng.randint(1, 6)
    hname, hf = gen.pick_hash(rng, keys)
    case.desc = {"kind": "threshold", "threshold": T, "width": width, "depth": depth, "hash": hname, "n_keys": len(keys)}
    ctx.observe("widths", width)
    ctx.observe("thresholds", T)
    st = P.StreamThreshold(threshold=T, width=width, depth=depth, **bl.kw_hash(hf))
    last = {}
    true = Counter()
    drops = 0
    every = rng.choice([1, 1, 1, 2, 2, 3, 5])  # table read after every call, or only after every 2nd..5th
    case.desc["table_read_every"] = every
    n_steps = rng.randint(5, 60)
    since_read = 0
    for step in range(n_steps):
        bl.noise_reads(ctx, rng, st, keys)
        r = rng.random()
        live = [k for k in keys if true[k] > 0]
        if r < 0.04:
            # a REFUSED addition / removal (amount that is no integer, hash list deeper than the sketch): nothing was returned, the table stays
            k = rng.choice(keys)
            how = rng.choice(["float amount", "None amount", "deeper hash list"])
            case.op("refused", k, how)
            try:
                fn = rng.choice([st.add, st.remove])
                if how == "float amount":
                    ret = fn(k, 2.0)
                elif how == "None amount":
                    ret = fn(k, None)
                else:
                    ret = st.add_alt(k, list(st.hashes(k)) + [7, 11], 0)
                # an implementation that accepts the call has performed an operation on the key: the value it returned is the key's most
                # recent estimate as far as the table is concerned
                ctx.count("threshold.odd_calls_that_were_accepted")
                if isinstance(ret, int):
                    last[k] = ret
            except Exception:
                ctx.count("threshold.refused_calls")
        elif r < 0.6 or not live:
            k = rng.choice(keys)
            n = rng.choice([1, 1, 2, 3, 5]) if rng.random() < 0.93 else 0
            if rng.random() < 0.85:
                case.op("add", k, n)
                ret = st.add(k, n)
            else:
                case.op("add_alt", k, n)
                arg, cp = bl.alt_arg(ctx, st.hashes(k))
                ret = st.add_alt(k, arg, n)
                bl.arg_unchanged(ctx, arg, cp, "add_alt")
            true[k] += n
            if k in last and last[k] >= T and ret < T:
                drops += 1
                ctx.count("add_returned_below_threshold_for_tracked_key")
            last[k] = ret
            ctx.count("op.add")
        elif r < 0.95:
            k = rng.choice(live)
            n = rng.randint(1, true[k])
            if rng.random() < 0.85:
                case.op("remove", k, n)
                ret = st.remove(k, n)
            else:
                case.op("remove_alt", k, n)
                arg, cp = bl.alt_arg(ctx, st.hashes(k))
                ret = st.remove_alt(k, arg, n)
                bl.arg_unchanged(ctx, arg, cp, "remove_alt")
            true[k] -= n
            if k in last and last[k] >= T and ret < T:
                drops += 1
            last[k] = ret
            ctx.count("op.remove")
        elif r < 0.98:
            case.op("clear")
            st.clear()
            last, true = {}, Counter()
        else:
            case.op("reload")
            st = P.StreamThreshold.frombytes(bytes(st), threshold=T, **bl.kw_hash(hf))
            last = {}
            ctx.count("op.reload")
        if case.ops[-1][0] in ("add", "add_alt", "remove", "remove_alt"):
            ctx.check(ret == st.check(k), f"value returned by {case.ops[-1][0]} differs from check() at step {step}", key=k, returned=ret)
        if step % every and step != n_steps - 1:
            ctx.count("steps_between_two_table_reads")
            continue
        check_st(ctx, st, last, T, f"after step {step} ({case.ops[-1][0]}), table read every {every} steps")
        # consequence stated in the property: a key whose true count reaches the threshold right at its own operation is tracked
        for k in keys:
            if k in last and true[k] >= T and case.ops[-1][1:2] == (k,) and k not in st.meets_threshold:
                ctx.fail(f"a key whose true count reaches the threshold is missing from meets_threshold after its own operation (step {step})", key=k, true=true[k])
        ctx.count("table_comparisons")
    case.nontrivial = any(v >= T for v in last.values()) or drops > 0


PROP = Prop(
    "C17",
    "exploration",
    rule=("heavy: HeavyHitters with 1..4 hitters on sketches of width 1..5/50, depth 1..3, universes of 3..10 keys (> table size), add / add_alt / clear / "
          "reload; threshold: StreamThreshold with threshold 1..8 on the same geometries, interleaved add / remove (legitimate amounts) / clear / reload. "
          "Non-trivial = more distinct keys than table slots or an eviction (heavy); a key at/above the threshold or a drop below it (threshold). Distinct by hash of (parameters, operations)."),
    workloads=[
        Workload("heavy", wl_heavy, quick=1200, thorough=400000),
        Workload("threshold", wl_threshold, quick=1500, thorough=500000),
    ],
    assumptions=["ties at the smallest tracked value may go either way", "HeavyHitters switched to the mean-min query: only the size and tracked-value clauses are judged (estimates are not monotone there)", "the model records the values RETURNED by add/remove, as the statement says",
                 "tracking tables are not part of the export format: after a reload the model starts empty"],
    required=["table_comparisons", "evictions_observed", "op.remove", "add_returned_below_threshold_for_tracked_key"],
)
