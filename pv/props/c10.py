"""C10 - rotating Bloom filter stays bounded and keeps the most recent insertions.

Monitor shape: history + FIFO window model.  Structural bounds and per-filter counts (parsed from the export stream) are checked
after EVERY call; for every key that was absent just before its add, presence is asserted immediately and for at least
(max_queue_size-1)*est_elements further effective insertions (lower bound only), unless the caller popped or pushed explicitly.
"""
import math

from .. import bl, gen, refimpl
from ..core import Prop, Workload


def counts_of(f):
    st = refimpl.parse_expanding(bytes(f))
    return st, [c for c, _ in st["filters"]]


def model_rotate(counts, Q):
    if len(counts) < Q:
        counts.append(0)
    else:
        counts.pop(0)
        counts.append(0)


def run_history(ctx, rng, case, est, Q, rate, hname, hf, keys, nsteps, p_pushpop, sc):
    import probables as P
    from probables.exceptions import RotatingBloomFilterError

    f = P.RotatingBloomFilter(est_elements=est, false_positive_rate=rate, max_queue_size=Q, **bl.kw_hash(hf))
    counts = [0]
    calls = 0
    eff_total = 0
    tracked = {}  # key -> number of effective insertions at the time of ITS insertion (only keys absent just before the add)
    rotations = reloads = 0
    for step in range(nsteps):
        r = rng.random()
        if r < 0.06 or (r < 0.3 and counts[-1] == est and len(counts) >= Q and rng.random() < 0.5):
            # a REFUSED addition (hash list too short or not integers): whatever it does, the structural bounds and the per-filter
            # counts checked below must hold afterwards; the window of older keys is void if the call rotated before it failed
            key = rng.choice(keys)
            kfull = refimpl.bloom_sizing_simple(est, rate)[1]
            hl = list((hf or _default())(key, kfull))
            bad = hl[: rng.randint(0, max(0, kfull - 1))] if rng.random() < 0.6 else hl[:-1] + ["x"]
            case.op("refused add_alt", key)
            q_before = f.current_queue_size
            try:
                f.add_alt(bad, rng.random() < 0.6)
                accepted = True
            except Exception:
                accepted = False
                ctx.count("refused_additions")
            ctx.check(f.current_queue_size <= Q, f"a refused addition left the queue with {f.current_queue_size} filters (limit {Q}) at step {step}")
            _, now_counts = counts_of(f)
            if accepted or now_counts != counts:
                # the call took effect in some way (an implementation may rotate before it fails): resynchronise the model from what is observable
                counts[:] = now_counts
                tracked.clear()
                calls = f.elements_added
                eff_total = sum(counts)
            ctx.count("op.refused_add")
        elif r < 0.8:
            key = rng.choice(keys)
            force = rng.random() < 0.15
            if force and rng.random() < 0.3:
                force = 1  # a truthy flag that is not the object True
            elif not force and rng.random() < 0.3:
                force = rng.choice([0, None])  # a falsy flag that is not the object False: not forced
            present = f.check(key)
            eff = force or not present
            if rng.random() < 0.85:
                case.op("add", key, force)
                f.add(key, force) if force or force is not False else f.add(key)
            else:
                case.op("add_alt", key, force)
                arg, cp = bl.alt_arg(ctx, (hf or _default())(key, refimpl.bloom_sizing_simple(est, rate)[1] + rng.choice([0, 0, 2, 5])))
                f.add_alt(arg, force)
                bl.arg_unchanged(ctx, arg, cp, "add_alt")
            calls += 1
            if eff:
                if counts[-1] == est:
                    if len(counts) >= Q:
                        rotations += 1
                        ctx.count("rotations_dropping_oldest")
                    model_rotate(counts, Q)
                counts[-1] += 1
                eff_total += 1
                if not present:
                    tracked[key] = eff_total
                    ctx.check(f.check(key) and key in f, f"a key that was absent just before its add is absent right after it (step {step})", key=key, est=est, Q=Q)
                    ctx.count("fresh_insertions_tracked")
            ctx.count("op.add")
        elif r < 0.8 + p_pushpop / 2:
            case.op("push")
            f.push()
            model_rotate(counts, Q)
            tracked.clear()  # explicit push voids the window guarantee for older keys
            ctx.count("op.push")
        elif r < 0.8 + p_pushpop:
            case.op("pop")
            before = bytes(f)
            qsize_before = f.current_queue_size
            try:
                f.pop()
                raised = None
            except RotatingBloomFilterError as e:
                raised = e
            if qsize_before == 1:
                ctx.check(raised is not None, f"pop on a single-filter queue was not refused (step {step})")
                ctx.check(bytes(f) == before, f"a refused pop changed the filter (step {step})")
                ctx.count("pop_refusals")
            else:
                if raised is None and len(counts) > 1:
                    counts.pop(0)
                tracked.clear()
            ctx.count("op.pop")
        elif r < 0.96:
            chan = rng.choice(["bytes", "path", "fileobj"])
            case.op("reload", chan)
            data = bl.export_bytes_via(f, chan, sc)
            if chan == "path":
                p2 = sc.path("load")
                with open(p2, "wb") as fh:
                    fh.write(data)
                f = P.RotatingBloomFilter(filepath=p2, max_queue_size=Q, **bl.kw_hash(hf), **({"est_elements": rng.randint(1, 500), "false_positive_rate": rng.choice([0.3, 0.05, 0.011, 0.001])} if rng.random() < 0.3 else {}))
            else:
                f = P.RotatingBloomFilter.frombytes(data, max_queue_size=Q, **bl.kw_hash(hf))
            reloads += 1
            ctx.count("op.reload")
        else:
            case.op("query")
            f.check(rng.choice(keys))
        # ---- oracle after every call
        where = f"after step {step} ({case.ops[-1][0]}), est={est}, queue={Q}"
        st, got = counts_of(f)
        ctx.count("stream_parses")
        ctx.check(1 <= f.current_queue_size <= Q, f"current_queue_size outside 1..max_queue_size {where}", got=f.current_queue_size)
        ctx.check(f.current_queue_size == len(got) == st["n"], f"current_queue_size differs from the exported stream {where}", got=f.current_queue_size, stream=len(got))
        ctx.check(all(c <= est for c in got), f"an internal filter holds more than est_elements insertions {where}", got=got)
        if got != counts:
            # diagnostic only: the statement bounds the queue and the retention window, it does not pin WHEN a rotation happens
            # (a filter that rotates eagerly, right after the newest fills up, also satisfies it); so this is counted, not judged
            ctx.count("diagnostic.layout_differs_from_lazy_fifo_model")
            counts[:] = got
        ctx.check(f.max_queue_size == Q, f"max_queue_size changed {where}", got=f.max_queue_size)
        for k, at in ctx.alternating(list(tracked.items())):
            if eff_total - at < (Q - 1) * est:
                ctx.counters["oracle_evaluations"] += 1
                ctx.counters["window_checks"] += 1
                if not f.check(k):
                    ctx.fail(f"a key inserted {eff_total - at} effective insertions ago (window {(Q - 1) * est}) is reported absent {where}", key=k)
    return rotations, reloads


def _default():
    from probables.hashes import default_fnv_1a

    return default_fnv_1a


def wl_history(ctx, rng, case):
    est = rng.choice([1, 1, 2, 2, 3, 4, 5, 6])
    Q = rng.choice([1, 1, 2, 2, 3, 4, 5])
    nsteps = rng.randint(8, 80)
    if rng.random() < 0.2:
        # a DEEP queue (up to 40 filters) of tiny filters, long enough to fill it and to re-add keys that only the oldest filters hold
        est, Q, nsteps = rng.choice([1, 1, 2]), rng.choice([17, 18, 20, 24, 33, 40]), rng.randint(120, 220)
        ctx.count("deep_queue_histories")
    for _ in range(50):
        rate = rng.choice([0.5, 0.3, 0.2, 0.1, 0.05, 0.01, 0.001, 1e-4])
        mk = refimpl.bloom_sizing_simple(est, rate)
        if mk and mk[1] >= 1:
            break
    keys = gen.universe(rng, rng.randint(4, 40) if Q < 12 else rng.randint(Q * est + 5, Q * est + 25))
    hname, hf = gen.pick_hash(rng, keys, kind=rng.choice(["library_default", "default_fnv_1a", "default_md5", "default_sha256", "decorated_int_sha512",
                                                          "decorated_bytes_blake2b", "hand_pairs_collide", "hand_mod3"]))
    if rng.random() < 0.12:
        from probables.hashes import default_fnv_1a as _d

        hname, hf = "hand_generous_depth", gen.GenerousHash(hf or _d, rng.randint(1, 4))
    p_pushpop = rng.choice([0.0, 0.0, 0.08, 0.14])
    case.desc = {"est": est, "queue": Q, "rate": rate, "hash": hname, "n_keys": len(keys), "p_pushpop": p_pushpop}
    ctx.observe("est_elements", est)
    ctx.observe("queue_sizes", Q)
    sc = bl.Scratch(ctx, case)
    try:
        rot, rel = run_history(ctx, rng, case, est, Q, rate, hname, hf, keys, nsteps, p_pushpop, sc)
        case.nontrivial = rot >= 1 or rel >= 1
        if rot:
            ctx.count("cases_with_rotation")
    finally:
        sc.cleanup()


def wl_grid(ctx, rng, case):
    """every (est, queue) of a grid with distinct keys only (no false-positive luck needed): long enough to rotate several times"""
    ests = [1, 2, 3, 4, 5, 6, 7, 20, 64]
    Qs = [1, 2, 3, 4, 5, 10]
    est = ests[case.index % len(ests)]
    Q = Qs[(case.index // len(ests)) % len(Qs)]
    rate = [0.01, 0.001, 0.05][(case.index // 54) % 3]
    case.desc = {"est": est, "queue": Q, "rate": rate, "kind": "grid"}
    if est * Q > 200:
        case.desc["skipped"] = "grid point too large for a per-step full check"
        return
    keys = [f"g{case.index}-{i}" for i in range(3 * est * Q + 6)]
    ctx.observe("est_elements", est)
    ctx.observe("queue_sizes", Q)
    sc = bl.Scratch(ctx, case)
    try:
        import random

        seq = random.Random(case.index)
        order = list(keys)

        class Seq:
            """deterministic chooser: walk through the keys in order so that nearly every add is a fresh insertion"""

            def __init__(self):
                self.i = 0

            def choice(self, xs):
                if xs is keys:
                    self.i += 1
                    return order[(self.i - 1) % len(order)]
                return seq.choice(xs)

            def random(self):
                return seq.random()

            def randint(self, a, b):
                return seq.randint(a, b)

        rot, rel = run_history(ctx, Seq(), case, est, Q, rate, "library_default", None, keys, 3 * est * Q + 12, 0.0, sc)
        if rot:
            ctx.count("cases_with_rotation")
        case.nontrivial = True
    finally:
        sc.cleanup()


def wl_est_sweep(ctx, rng, case):
    """EVERY est_elements from 1 upwards with queue sizes 1..3: forced distinct additions until the queue has rotated at least once more than
    it can hold; queue length and per-filter counts (from the exported stream) are checked at every filter boundary, presence right after each add"""
    import probables as P

    est = case.index + 1
    Q = 1 + (case.index * 7 + case.index // 3) % 3
    rate = rng.choice([0.1, 0.05, 0.01])
    case.desc = {"est": est, "queue": Q, "rate": rate, "kind": "every est_elements"}
    if refimpl.bloom_sizing_simple(est, rate) is None:
        return
    f = P.RotatingBloomFilter(est_elements=est, false_positive_rate=rate, max_queue_size=Q)
    forced = case.index % 2 == 0
    total = est * Q + est + 2
    eff = 0
    i = 0
    inserted = []
    reload_at = rng.randint(1, total - 1) if rng.random() < 0.5 else None  # half of the cases go on with a LOADED copy from some point on
    while eff < total and i < 3 * total + 50:
        if reload_at is not None and eff == reload_at:
            f = P.RotatingBloomFilter.frombytes(bytes(f), max_queue_size=Q)
            reload_at = None
            case.op("reload", eff)
            ctx.count("sweep_reloads")
        key = f"rsweep-{est}-{i}"
        i += 1
        present = (not forced) and f.check(key)
        f.add(key, force=True) if forced else f.add(key)
        if present:
            continue
        eff += 1
        inserted.append(key)
        ctx.counters["oracle_evaluations"] += 1
        if not f.check(key):
            ctx.fail(f"a key that was absent just before its add is absent right after it (est={est}, queue={Q}, insertion {eff})", key=key)
        # retention: the key inserted (queue-1)*est - 1 effective insertions ago is still inside its guaranteed window
        back = (Q - 1) * est - 1
        if 0 < back < len(inserted):
            old = inserted[-1 - back]
            ctx.counters["oracle_evaluations"] += 1
            if not f.check(old):
                ctx.fail(f"a key is reported absent after only {back} further effective insertions; the guaranteed window is (queue-1)*est = {(Q - 1) * est} (est={est}, queue={Q})", key=old)
            ctx.count("sweep_retention_checks")
        if eff % est in (0, 1) or eff == total:
            st, counts = counts_of(f)
            ctx.check(1 <= len(counts) <= Q, f"queue holds {len(counts)} filters, limit {Q} (est={est}, insertion {eff})", counts=counts)
            ctx.check(all(c <= est for c in counts), f"an internal filter holds more than est_elements insertions (est={est}, queue={Q}, insertion {eff})", counts=counts)
            want_len = min(Q, max(1, math.ceil(eff / est)))
            ctx.check(len(counts) == want_len or (eff % est == 0 and len(counts) == min(Q, want_len + 1)),
                      f"queue length after {eff} forced / effective insertions is not min(queue, ceil(I/est)) (est={est}, queue={Q})", got=len(counts), want=want_len)
            ctx.count("sweep_boundary_checks")
    ctx.count("est_sweep_cases")
    ctx.maximum("est_sweep_max_est_elements", est)
    case.nontrivial = True


PROP = Prop(
    "C10",
    "exploration",
    rule=("history: random sequences of add (new / duplicate / forced) / add_alt / push / pop / reload (max_queue_size re-supplied) on rotating filters "
          "with est_elements 1..6, max_queue_size 1..5, 8 rates, 8 hash strategies; grid: every (est 1..7, 20, 64) x (queue 1..5, 10) x 3 rates with mostly "
          "fresh keys, long enough to rotate several times. Non-trivial = at least one rotation that dropped the oldest filter, or a reload; "
          "distinct by hash of (parameters, operations)."),
    workloads=[
        Workload("grid", wl_grid, quick=162, thorough=162),
        Workload("history", wl_history, quick=1200, thorough=400000),
        Workload("est_sweep", wl_est_sweep, quick=320, thorough=1500),
    ],
    assumptions=["only the lower bound of the retention window is asserted (Bloom false positives may keep a key longer); a key must be present while FEWER than (Q-1)*est further effective insertions happened ('until' read strictly)",
                 "the lazy-FIFO layout model is a diagnostic (counted in evidence), not a verdict: the statement does not pin when a rotation happens",
                 "explicit pop/push void the window guarantee for keys inserted before them",
                 "the window is tracked for keys that check() reported absent just before their add, as the statement says"],
    required=["stream_parses", "window_checks", "rotations_dropping_oldest", "pop_refusals", "op.reload", "fresh_insertions_tracked"],
)
