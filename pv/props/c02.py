"""C02 - Count-Min estimate is never below the true count nor above the total.

Monitor shape: history + true-count model.  After EVERY call every key of the universe is queried:
    true[k] <= check(k) <= elements_added == sum(true)
    a key that owns a counter no other live key touches (in some row) is estimated exactly (min over rows)
    the value returned by add/remove equals check() immediately afterwards.
"""
from collections import Counter

from .. import bl, gen
from ..core import Prop, Workload

SIZINGS = [(0.5, 0.5), (0.75, 0.3), (0.9, 0.1), (0.99, 0.01), (0.6, 0.7), (0.999, 0.25), (0.5, 1.9)]


def build(P, rng, keys, force_width=None):
    hname, hf = gen.pick_hash(rng, keys)
    kind = rng.random() if force_width is None else 0.0
    cls_name = rng.choice(["CountMinSketch"] * 4 + ["CountMeanSketch", "CountMeanMinSketch"])
    cls = getattr(P, cls_name)
    if kind < 0.75:
        width = rng.choice([1, 1, 2, 2, 3, 3, 4, 5, 6, 7, 8, 50, 1000]) if force_width is None else force_width
        depth = rng.randint(1, 6)
        s = cls(width=width, depth=depth, **bl.kw_hash(hf))
        how = {"width": width, "depth": depth}
    else:
        conf, err = rng.choice(SIZINGS)
        s = cls(confidence=conf, error_rate=err, **bl.kw_hash(hf))
        how = {"confidence": conf, "error_rate": err}
    if cls_name != "CountMinSketch":
        s.query_type = "min"
    return s, cls, cls_name, hname, hf, how


def cells_of(s, key):
    return [(h % s.width) + i * s.width for i, h in enumerate(s.hashes(key))]


def probe_all(ctx, s, keys, true, where):
    total = sum(true.values())
    ctx.check(s.elements_added == total, f"elements_added is not the sum of the true counts {where}", got=s.elements_added, want=total)
    live = [k for k in keys if true[k] > 0]
    cellmap = {k: cells_of(s, k) for k in keys}
    usage = Counter()
    for k in live:
        for c in set(cellmap[k]):
            usage[c] += 1
    for k in ctx.alternating(keys):
        est = s.check(k)
        ctx.counters["oracle_evaluations"] += 1
        if est < true[k]:
            ctx.fail(f"estimate below the true count {where}", key=k, estimate=est, true=true[k])
        if est > total:
            ctx.fail(f"estimate above the total number of elements {where}", key=k, estimate=est, total=total)
        # a row whose counter is touched by no other live key pins the estimate
        own = [c for c in cellmap[k] if usage[c] - (1 if true[k] > 0 else 0) == 0]
        if own:
            ctx.count("exactness_checks")
            if len(own) == len(cellmap[k]):
                ctx.count("exactness_checks_no_shared_counter_at_all")
            if est != true[k]:
                ctx.fail(f"a key owning an unshared counter is not estimated exactly {where}", key=k, estimate=est, true=true[k],
                         unshared_rows=len(own), rows=len(cellmap[k]))
        ctx.check((k in s) == (est != 0), f"`in` disagrees with check() {where}", key=k)
        arg, cp = bl.alt_arg(ctx, s.hashes(k))
        ctx.check(s.check_alt(arg) == est, f"check_alt(hashes(key)) disagrees with check(key) {where}", key=k)
        bl.arg_unchanged(ctx, arg, cp, "check_alt")
    ctx.count("full_probes")


def wl_history(ctx, rng, case, force_width=None):
    import probables as P

    keys = gen.universe(rng, rng.randint(2, 14))
    s, cls, cls_name, hname, hf, how = build(P, rng, keys, force_width)
    case.desc = dict(how, cls=cls_name, hash=hname, n_keys=len(keys), width_actual=s.width, depth_actual=s.depth)
    ctx.observe("widths", s.width, cap=3000)
    ctx.observe("depths", s.depth)
    ctx.observe("hash_kinds", hname)
    true = Counter({k: 0 for k in keys})
    removes = reloads = 0
    # in a quarter of the histories nothing reads the sketch between two mutations: the oracles run after every 2nd..5th call only
    quiet = rng.choice([0, 0, 0, 2, 3, 5])
    nsteps = rng.randint(4, 45)
    for step in range(nsteps):
        if not quiet:
            bl.noise_reads(ctx, rng, s, keys)
        r = rng.random()
        total = sum(true.values())
        live = [k for k in keys if true[k] > 0]
        if r < 0.6 or not live:
            k = rng.choice(keys)
            n = rng.choice([1, 1, 1, 2, 3, 5]) if rng.random() < 0.93 else rng.randint(1000, 10**6)
            if rng.random() < 0.04:
                # large amounts, the total staying below 2^31-1 as the statement requires: every power of two on the way up is crossed somewhere
                n = rng.choice([2**e + d for e in (15, 16, 24, 27, 28, 30) for d in (-1, 0, 1)] + [10**8, 5 * 10**8, max(1, 2**31 - 2 - total)])
            if total + n >= 2**31 - 1:
                continue
            if rng.random() < 0.8:
                case.op("add", k, n)
                ret = s.add(k, n) if n != 1 or rng.random() < 0.5 else s.add(k)
            else:
                case.op("add_alt", k, n)
                arg, cp = bl.alt_arg(ctx, s.hashes(k))
                ret = s.add_alt(arg, n)
                bl.arg_unchanged(ctx, arg, cp, "add_alt")
            true[k] += n
            ctx.count("op.add")
        elif r < 0.92:
            k = rng.choice(live)
            n = rng.randint(1, true[k]) if rng.random() < 0.7 else true[k]
            if rng.random() < 0.8:
                case.op("remove", k, n)
                ret = s.remove(k, n) if n != 1 or rng.random() < 0.5 else s.remove(k)
            else:
                case.op("remove_alt", k, n)
                arg, cp = bl.alt_arg(ctx, s.hashes(k))
                ret = s.remove_alt(arg, n)
                bl.arg_unchanged(ctx, arg, cp, "remove_alt")
            true[k] -= n
            removes += 1
            ctx.count("op.remove")
        elif r < 0.95:
            # misuse that the library refuses: hashes computed for a DEEPER sketch handed to add_alt / remove_alt.  Whatever the call
            # does (raise, or ignore the surplus), the bounds below must keep holding: a refused call has no effect at all.
            k = rng.choice(keys)
            n = rng.randint(1, 3)
            op = rng.choice(["add_alt", "remove_alt"]) if true[k] >= n else "add_alt"
            long_hashes = s.hashes(k, s.depth + rng.randint(1, 3))
            kind = rng.choice(["too-many-hashes", "too-many-hashes", "fractional-amount", "amount-below-int32"])
            if kind == "fractional-amount" and total >= 2**30:
                # next to counters close to the 32-bit limit a fractional amount is clamped (cell by cell) before the first unsaturated cell
                # refuses it: not a clean refusal, and outside the statement (amounts are integers) - not used there
                kind = "too-many-hashes"
            case.op(op + "-" + kind, k, n)
            try:
                if kind == "too-many-hashes":
                    ret = getattr(s, op)(long_hashes, n)
                elif kind == "fractional-amount":
                    ret = (s.remove if op == "remove_alt" else s.add)(k, n + 0.5)  # no integer: the counters cannot take it
                else:
                    ret = s.add(k, -(2**32) - n)  # an amount no 32-bit counter can hold
                true[k] += n if op == "add_alt" else -n
                if kind != "too-many-hashes":
                    # accepted: that happens next to a counter at its 32-bit limit (the clamp takes any number) - a state this model does not
                    # follow; the history ends here
                    ctx.count("odd_amounts_accepted_next_to_a_limit")
                    case.nontrivial = True
                    return
            except Exception:
                ret, k = None, None
                ctx.count("refused_misuse_calls")
        elif r < 0.957:
            # a second sketch meets this one in a join and is changed afterwards: an (empty or fed) accumulator that joins this sketch,
            # or - while this sketch is still empty - a fed sketch that this one joins.  Whatever happens to the OTHER object later
            # must not move what this one reports (probed below against its own true counts).
            other = cls(width=s.width, depth=s.depth, **bl.kw_hash(hf))
            other.query_type = "min"
            fed = []
            for _ in range(rng.choice([0, 1, 2])):
                fed.append((rng.choice(keys), rng.randint(1, 4)))
                other.add(*fed[-1])
            alts = [(s.width * s.depth // dd, dd) for dd in range(1, s.width * s.depth + 1) if (s.width * s.depth) % dd == 0 and dd != s.depth and dd <= 16]
            if alts and rng.random() < 0.3:
                # a partner of ANOTHER shape with the same number of counters (transposed, another factorisation): the join must be refused
                # and leave this sketch as it is (probed below as usual)
                w2, d2 = rng.choice(alts)
                odd = cls(width=w2, depth=d2, **bl.kw_hash(hf))
                odd.query_type = "min"
                odd.add(rng.choice(keys), rng.randint(1, 5))
                case.op("join-with-another-shape-refused", (w2, d2))
                try:
                    s.join(odd)
                    accepted = True
                except Exception:
                    accepted = False
                ctx.check(not accepted, f"join of a {s.width}x{s.depth} sketch with a {w2}x{d2} sketch was accepted")
                ctx.count("joins_with_another_shape_refused")
            elif s.depth >= 2 and rng.random() < 0.25:
                # a partner of the SAME shape whose hash strategy agrees with this sketch's on the first row(s) and differs further down; both
                # strategy objects were used by shallower sketches (in legitimate joins) before.  The join must be refused.
                from probables.hashes import default_fnv_1a as _dflt

                odd_hf = gen.DerivedHash(hf or _dflt, rng.choice(["first_only", "all_but_last"]), depth_at=s.depth)
                for strat in (odd_hf, hf or _dflt):
                    d0 = rng.randint(1, s.depth - 1)
                    s1, s2 = P.CountMinSketch(width=s.width, depth=d0, hash_function=strat), P.CountMinSketch(width=s.width, depth=d0, hash_function=strat)
                    s2.add(rng.choice(keys), 1)
                    s1.join(s2)
                odd = cls(width=s.width, depth=s.depth, hash_function=odd_hf)
                odd.query_type = "min"
                for _ in range(3):
                    odd.add(rng.choice(keys), rng.randint(1, 5))
                case.op("join-with-a-partly-agreeing-strategy-refused")
                try:
                    s.join(odd)
                    accepted = True
                except Exception:
                    accepted = False
                ctx.check(not accepted, "join with a sketch whose hash strategy differs below the first row was accepted")
                ctx.count("joins_with_a_partly_agreeing_strategy_refused")
            elif sum(true.values()) == 0 and fed and rng.random() < 0.6:
                case.op("join-into-empty-self", fed)
                s.join(other)
                for ka, na in fed:
                    true[ka] += na  # what the argument held is now part of this sketch's contents
            else:
                case.op("joined-by-another-sketch", fed)
                other.join(s)
            for _ in range(rng.randint(1, 3)):
                kk = rng.choice(keys)
                if rng.random() < 0.6:
                    other.add(kk, rng.randint(1, 9))
                elif other.check(kk) > 0:
                    other.remove(kk, 1)
            k, ret = None, None
            ctx.count("other_sketch_changed_after_a_join")
        elif r < 0.965:
            # a configuration corner: the query type is switched away and back between operations; the counters must not care
            case.op("toggle-query-type")
            s.query_type = rng.choice(["mean", "mean", "mean-min", "MEAN", None, "bogus"])
            s.query_type = rng.choice(["min", None, "MIN", "bogus"])  # every documented way back to the min query
            k, ret = None, None
            ctx.count("query_type_toggles")
        else:
            case.op("reload")
            if rng.random() < 0.5:
                s2 = cls.frombytes(bytes(s), **bl.kw_hash(hf))
            else:
                # a checkpoint FILE (every third scratch path already holds a longer file of something else): the history goes on with what
                # is loaded back from it
                sc = bl.Scratch(ctx, case)
                try:
                    p = sc.path("checkpoint")
                    s.export(p)
                    s2 = cls(filepath=p, **bl.kw_hash(hf))
                finally:
                    sc.cleanup()
                ctx.count("reloads_through_a_checkpoint_file")
            s2.query_type = "min"
            s = s2
            k, ret = None, None
            reloads += 1
            ctx.count("op.reload")
        where = f"after step {step} ({case.ops[-1][0]})"
        if quiet and step % quiet and step != nsteps - 1:
            ctx.count("steps_without_any_read")
            continue
        if k is not None:
            now = s.check(k)
            ctx.check(ret == now, f"value returned by {case.ops[-1][0]} differs from the immediately following check() {where}", key=k, returned=ret, check=now)
            ctx.count("return_value_checks")
        probe_all(ctx, s, keys, true, where)
    case.nontrivial = len(case.ops) >= 4 and sum(1 for v in true.values() if v) >= 1 and (removes + reloads) >= 1


def wl_roomy_exact(ctx, rng, case):
    """roomy sketches (width 1000) where the tests' regime holds: every key must be exact at every step, incl. after removals"""
    import probables as P

    keys = gen.ascii_universe(rng, rng.randint(3, 12))
    hname, hf = gen.pick_hash(rng, keys, kind=rng.choice(["library_default", "default_fnv_1a", "default_md5", "default_sha256"]))
    s = P.CountMinSketch(width=rng.choice([500, 1000, 4096]), depth=rng.randint(2, 6), **bl.kw_hash(hf))
    case.desc = {"width": s.width, "depth": s.depth, "hash": hname, "n_keys": len(keys)}
    true = Counter({k: 0 for k in keys})
    for step in range(rng.randint(5, 30)):
        k = rng.choice(keys)
        if rng.random() < 0.15:
            # a small DELTA sketch (same shape and strategy, a handful of counters in use, total mostly below the width) is merged in: what
            # it counted is part of this sketch's contents from then on.  Amounts with zero low bytes (256, 512, 65536) and their neighbours.
            delta = P.CountMinSketch(width=s.width, depth=s.depth, **bl.kw_hash(hf))
            fed = [(rng.choice(keys), rng.choice([256, 256, 512, 768, 255, 257, 1, 3, 65536, 2**24])) for _ in range(rng.randint(1, 3))]
            for kd, nd in fed:
                delta.add(kd, nd)
            case.op("join-delta", fed)
            s.join(delta)
            for kd, nd in fed:
                true[kd] += nd
            ctx.count("delta_sketches_joined_into_a_roomy_sketch")
            probe_all(ctx, s, keys, true, f"after step {step} (join of a small delta sketch)")
            continue
        if true[k] and rng.random() < 0.4:
            n = rng.randint(1, true[k])
            case.op("remove", k, n)
            ret = s.remove(k, n)
            true[k] -= n
        else:
            n = rng.randint(1, 9) if rng.random() < 0.8 else rng.choice([256, 512, 65536, 255, 1024])
            case.op("add", k, n)
            ret = s.add(k, n)
            true[k] += n
        ctx.check(ret == s.check(k), "returned value differs from check()", key=k, returned=ret)
        probe_all(ctx, s, keys, true, f"after step {step}")
    case.nontrivial = True


def wl_big_clear(ctx, rng, case):
    """big sketches (1 000 .. 10 000 counters) fed HUNDREDS of distinct keys - a good part of the table in use -, cleared, and used again: after
    clear() every estimate is 0 and so is the total; the bounds hold for the second life as for the first"""
    import probables as P

    width, depth = rng.choice([(1024, 1), (512, 4), (2000, 5), (1000, 2), (4096, 1), (300, 7), (64, 16)])
    cls = rng.choice([P.CountMinSketch, P.CountMinSketch, P.CountMeanSketch, P.HeavyHitters, P.StreamThreshold])
    extra = {"num_hitters": 5} if cls is P.HeavyHitters else ({"threshold": 3} if cls is P.StreamThreshold else {})
    s = cls(width=width, depth=depth, **extra)
    s.query_type = "min"
    n_keys = rng.choice([width * depth // 8, width * depth // 4, width * depth // 3, width * depth // 2]) // depth + rng.randint(0, 40)
    keys = [f"key-{case.index}-{i}" for i in range(max(50, min(n_keys, 2500)))]
    case.desc = {"cls": cls.__name__, "width": width, "depth": depth, "n_keys": len(keys), "kind": "big sketch, cleared, used again"}
    for life in range(2 + (case.index % 2)):
        true = Counter()
        for kx in keys if life == 0 else rng.sample(keys, len(keys) // (life + 1)):
            n = rng.choice([1, 1, 2, 5])
            s.add(kx, n)
            true[kx] += n
        total = sum(true.values())
        ctx.check(s.elements_added == total, f"elements_added is not the sum of the true counts in life {life + 1} of a big sketch", got=s.elements_added, want=total)
        for kx in rng.sample(keys, min(300, len(keys))) + ["never-added"]:
            est = s.check(kx)
            ctx.counters["oracle_evaluations"] += 1
            if est < true[kx] or est > total:
                ctx.fail(f"estimate outside [true count, total] in life {life + 1} of a big sketch (after {life} clears)", key=kx, estimate=est, true=true[kx], total=total)
        s.clear()
        ctx.check(s.elements_added == 0, "elements_added is not 0 after clear()", got=s.elements_added)
        left = [kx for kx in keys if s.check(kx) != 0]
        ctx.counters["oracle_evaluations"] += len(keys)
        if left:
            ctx.fail(f"{len(left)} keys are still estimated above 0 right after clear() of a {width}x{depth} sketch that had seen {len(true)} distinct keys", first=left[:4],
                     estimate=s.check(left[0]))
        ctx.check(not any(bytes(s)[:-16]), "counters are not all zero after clear()")
        ctx.count("big_sketches_cleared")
    ctx.count("full_probes")
    case.nontrivial = True


def wl_width_sweep(ctx, rng, case):
    """EVERY width from 1 upwards (one history each), then powers of two and their neighbours up to 2^20"""
    extra = [w for e in range(9, 21) for w in (2**e - 1, 2**e, 2**e + 1)]
    width = case.index + 1 if case.index < 300 else extra[(case.index - 300) % len(extra)]
    ctx.maximum("width_sweep_max_width", width)
    wl_history(ctx, rng, case, force_width=width)


PROP = Prop(
    "C02",
    "exploration",
    rule=("random histories of add(k,n)/remove(k,n<=true)/add_alt/remove_alt/reload over universes of 2..14 keys on sketches of width 1..8 "
          "(heavy collisions), 50, 1000 or sized by confidence/error rate, depth 1..6, every hash strategy of the zoo, CountMinSketch and the "
          "mean/mean-min classes switched to min; every key queried after every call. Non-trivial = >= 4 operations with at least one removal "
          "or reload and a live key; distinct by hash of (parameters, operation sequence)."),
    workloads=[
        Workload("history", wl_history, quick=1500, thorough=600000),
        Workload("roomy_exact", wl_roomy_exact, quick=150, thorough=24000),
        Workload("width_sweep", wl_width_sweep, quick=336, thorough=3360),
        Workload("big_clear", wl_big_clear, quick=14, thorough=280),
    ],
    assumptions=["true counts kept by the harness; the unshared-counter predicate uses the sketch's public hashes() reduced mod width per row (documented addressing)",
                 "min mode: a counter that no other live key touches equals the key's true count, so the minimum over rows is exact (count-min definition)"],
    required=["full_probes", "exactness_checks", "return_value_checks", "op.remove", "op.reload", "refused_misuse_calls"],
)
