"""C16 - counters saturate at their integer limits instead of wrapping or failing.

Monitor shape: limit histories against a saturating cell model.  Every cell (parsed from the export), the total, the returned
value and the export/load identity are checked after EVERY call; no call in the domain may raise.
"""
from collections import Counter

from .. import bl, gen, refimpl
from ..core import Inconclusive, Prop, Workload

I32MAX, I32MIN = refimpl.INT32_MAX, refimpl.INT32_MIN
U32MAX, I64MAX, I64MIN, U64MAX = refimpl.UINT32_MAX, refimpl.INT64_MAX, refimpl.INT64_MIN, refimpl.UINT64_MAX

BIG = [2**31 - 2, 2**31 - 1, 2**31, 2**31 + 5, 2**32 - 2, 2**32 - 1, 2**32, 2**33, 2**63 - 1, 2**63, 2**64 - 1, 2**64, 2**64 + 1, 10**30]


def clamp(v, lo, hi):
    return lo if v < lo else hi if v > hi else v


def amount(rng, limit):
    r = rng.random()
    if r < 0.3:
        return rng.choice([1, 1, 2, 3, 7])
    if r < 0.7:
        return max(1, limit + rng.randint(-3, 3))
    if r < 0.85:
        return max(1, limit // 2 + rng.randint(-2, 2))
    return rng.choice(BIG)


# ------------------------------------------------------------------ count-min

def cms_cells(s):
    return refimpl.parse_cms(bytes(s))


def wl_cms_big(ctx, rng, case):
    """sketches of 80 000 .. 260 000 counters (several blocks of whatever size a merge might work in): keys near and beyond the limits in
    BOTH operands, in every part of the table; after the join every counter is the clamped sum, the total is pinned, the argument is
    unchanged, and the joined sketch survives export and load"""
    import probables as P

    width, depth = rng.choice([(20000, 4), (20000, 6), (65536, 2), (65537, 3), (33000, 8)])
    cls = rng.choice([P.CountMinSketch, P.CountMeanSketch])
    a, b = cls(width=width, depth=depth), cls(width=width, depth=depth)
    ma, mb = [0] * (width * depth), [0] * (width * depth)
    ta = tb = 0
    keys = [f"big-{case.index}-{i}" for i in range(rng.randint(30, 80))]
    for s_, m_, tag in ((a, ma, "a"), (b, mb, "b")):
        for k in keys:
            if rng.random() < 0.7:
                n = amount(rng, I32MAX)
                neg = rng.random() < 0.35
                (s_.remove if neg else s_.add)(k, n)
                for i, h in enumerate(s_.hashes(k)):
                    c = (h % width) + i * width
                    m_[c] = clamp(m_[c] + (-n if neg else n), I32MIN, I32MAX)
                if tag == "a":
                    ta = clamp(ta + (-n if neg else n), I64MIN, I64MAX)
                else:
                    tb = clamp(tb + (-n if neg else n), I64MIN, I64MAX)
    case.desc = {"kind": "count-min big join", "width": width, "depth": depth, "cls": cls.__name__, "n_keys": len(keys)}
    ctx.check(cms_cells(a)["cells"] == ma and cms_cells(b)["cells"] == mb, "counters of a big sketch differ from the saturating model before the join")
    b_before = bytes(b)
    a.join(b)
    got = cms_cells(a)
    bad = []
    for i, (x, y) in enumerate(zip(ma, mb)):
        ok = {clamp(x + y, I32MIN, I32MAX)}
        if x in (I32MIN, I32MAX):
            ok.add(x)
        if got["cells"][i] not in ok:
            bad.append((i, x, y, got["cells"][i]))
    ctx.counters["oracle_evaluations"] += len(ma)
    ctx.check(not bad, f"join of two {width}x{depth} sketches: counters are not the saturating sums", first=bad[:5], wrong=len(bad))
    ctx.check(a.elements_added == clamp(ta + tb, I64MIN, I64MAX), "join of two big sketches: element total is not the pinned sum", got=a.elements_added, want=clamp(ta + tb, I64MIN, I64MAX))
    ctx.check(bytes(b) == b_before, "join modified its argument")
    data = bytes(a)
    ctx.check(bytes(cls.frombytes(data)) == data, "export -> load -> export of a big joined sketch is not the identity")
    ctx.count("big_joins")
    ctx.count("cell_comparisons", len(ma))
    ctx.count("joins")
    case.nontrivial = any(c in (I32MIN, I32MAX) for c in got["cells"])


def wl_cms(ctx, rng, case):
    import probables as P

    keys = gen.ascii_universe(rng, rng.randint(1, 5))
    width, depth = rng.choice([1, 2, 3, 4]), rng.randint(1, 4)
    hname, hf = gen.pick_hash(rng, keys, kind=rng.choice(["library_default", "default_fnv_1a", "default_md5", "hand_mod3", "hand_all_one_cell", "hand_huge_values"]))
    case.desc = {"kind": "count-min", "width": width, "depth": depth, "hash": hname}
    qtype = rng.choice(["min", "min", "mean", "mean-min"])
    if qtype == "mean-min":
        width = max(width, 2)
    cls = {"min": P.CountMinSketch, "mean": P.CountMeanSketch, "mean-min": P.CountMeanMinSketch}[qtype]
    extra = {}
    if qtype == "min" and rng.random() < 0.4:
        # the subclasses that keep a table on top of the sketch go through their own add / remove entry points
        cls, extra = rng.choice([(P.StreamThreshold, {"threshold": rng.choice([1, 5, 2**31 - 1])}), (P.StreamThreshold, {"threshold": 3}),
                                 (P.HeavyHitters, {"num_hitters": rng.randint(1, 3)})])
    s = cls(width=width, depth=depth, **extra, **bl.kw_hash(hf))
    can_remove = cls is not P.HeavyHitters  # HeavyHitters refuses removals (NotSupportedError)
    can_join = not extra  # HeavyHitters and StreamThreshold refuse join (NotSupportedError)
    case.desc["query_type"] = qtype
    case.desc["cls"] = cls.__name__
    ctx.observe("count_min_classes", cls.__name__)
    model = [0] * (width * depth)
    total = 0
    sat_hi = sat_lo = 0
    for step in range(rng.randint(2, 12)):
        k = rng.choice(keys)
        idx = [(h % width) + i * width for i, h in enumerate(s.hashes(k))]
        before = bytes(s)
        r = rng.random()
        if r < 0.55 or (r < 0.9 and not can_remove) or (r >= 0.9 and not can_join):
            n = amount(rng, I32MAX)
            case.op("add", k, n)
            ret, exc = ctx.call(s.add, k, n)
            for c in idx:
                model[c] = clamp(model[c] + n, I32MIN, I32MAX)
            total = clamp(total + n, I64MIN, I64MAX)
        elif r < 0.9:
            n = amount(rng, I32MAX)
            case.op("remove", k, n)
            ret, exc = ctx.call(s.remove, k, n)
            for c in idx:
                model[c] = clamp(model[c] - n, I32MIN, I32MAX)
            total = clamp(total - n, I64MIN, I64MAX)
        elif rng.random() < 0.12:
            # a call that is REFUSED (a hash list made for a deeper sketch) with an amount that would carry the key's cells across a limit:
            # no cell is left half-updated - the sketch is exactly what it was
            key = rng.choice(keys)
            before_s = bytes(s)
            n = amount(rng, I32MAX)
            deep = s.hashes(key, depth + rng.randint(1, 3))
            case.op("refused-deep-list", key, n)
            try:
                if extra:
                    (s.remove_alt if can_remove and rng.random() < 0.4 else s.add_alt)(key, deep, n)
                else:
                    (s.remove_alt if can_remove and rng.random() < 0.4 else s.add_alt)(deep, n)
                ctx.count("deep_list_calls_that_were_accepted")
                before_s = None
            except IndexError:
                ctx.count("refused_deep_list_calls_at_the_limits")
            if before_s is not None:
                ctx.check(bytes(s) == before_s and s.elements_added == total, "a refused call (hash list of a deeper sketch) left the sketch changed", got=s.elements_added, want=total)
                continue
            raise Inconclusive("a deeper hash list was accepted: the model cannot follow")
        else:
            # join with a second near-limit sketch
            if rng.random() < 0.3:
                # a join that is REFUSED (other hash strategy, or another geometry) with totals at the limits: nothing may move, nothing may be left unpinned
                import hashlib as _h
                other_hf = (lambda key, depth_=1: [int(_h.md5(b"%d|" % i + (key if isinstance(key, bytes) else str(key).encode())).hexdigest()[:15], 16) for i in range(depth_)])
                bad = type(s)(width=width, depth=depth, hash_function=other_hf) if rng.random() < 0.6 else type(s)(width=width + 1, depth=depth, **bl.kw_hash(hf))
                (bad.remove if rng.random() < 0.4 else bad.add)(rng.choice(keys), amount(rng, I32MAX))
                case.op("refused-join")
                before_s = bytes(s)
                try:
                    s.join(bad)
                    ctx.fail("join of incompatible sketches was accepted")
                except Exception as e:
                    if type(e).__name__ != "CountMinSketchError":
                        raise
                ctx.check(bytes(s) == before_s and s.elements_added == total, "a refused join changed the receiver (cells or element total)", got=s.elements_added, want=total)
                ctx.count("refused_joins_at_the_limits")
                continue
            t = type(s)(width=width, depth=depth, **extra, **bl.kw_hash(hf))
            n2 = amount(rng, I32MAX)
            neg = rng.random() < 0.4 and can_remove
            k2 = rng.choice(keys)
            (t.remove if neg else t.add)(k2, n2)
            if can_remove and rng.random() < 0.25:
                # an argument that went to a limit and BACK: every one of its counters is 0 again while its element total is not
                # (the counters were pinned in between), and that total may itself be huge
                t = type(s)(width=width, depth=depth, **extra, **bl.kw_hash(hf))
                huge = rng.choice([2**31, 2**31 + 5, 2**32, 2**40, 2**62, 2**63 - 2, 2**64 + 1])
                if rng.random() < 0.5:
                    t.add(k2, huge), t.remove(k2, I32MAX)
                else:
                    t.remove(k2, huge), t.add(k2, -I32MIN)
                if not any(cms_cells(t)["cells"]) and t.elements_added != 0:
                    ctx.count("joins_with_an_all_zero_argument_whose_total_is_not_zero")
            if rng.random() < 0.4:
                t = type(s).frombytes(bytes(t), **extra, **bl.kw_hash(hf))  # the argument is a LOADED copy
                ctx.count("joins_with_a_loaded_argument")
            if rng.random() < 0.4:
                s = type(s).frombytes(bytes(s), **extra, **bl.kw_hash(hf))  # ... and so is the receiver
                ctx.count("joins_with_a_loaded_receiver")
            tcells = cms_cells(t)
            case.op("join", k2, -n2 if neg else n2)
            recv_before = list(model)
            ret, exc = ctx.call(s.join, t)
            ctx.check(cms_cells(t) == tcells, "join modified its argument")
            got = cms_cells(s)["cells"]
            for i, (a, b) in enumerate(zip(recv_before, tcells["cells"])):
                ok = {clamp(a + b, I32MIN, I32MAX)}
                if a in (I32MIN, I32MAX):
                    ok.add(a)  # a receiver cell already at a limit may stay pinned
                if got[i] not in ok:
                    ctx.fail(f"join: cell {i} is not the saturating sum (step {step})", receiver=a, argument=b, got=got[i], acceptable=sorted(ok))
                model[i] = got[i]
            total = clamp(total + tcells["added"], I64MIN, I64MAX)
            ret = None
            ctx.count("joins")
        where = f"after step {step} ({case.ops[-1]})"
        st = cms_cells(s)
        ctx.check(st["cells"] == model, f"counters differ from the saturating model {where}", got=st["cells"], want=model)
        ctx.check(s.elements_added == total and st["added"] == total, f"element total is not pinned at the 64-bit limits {where}", got=s.elements_added, want=total)
        if ret is not None:
            if qtype == "min":
                want_ret = min(model[c] for c in idx)
                ctx.check(ret == want_ret and s.check(k) == want_ret, f"returned value is not the pinned minimum {where}", returned=ret, check=s.check(k), want=want_ret)
            else:
                # mean / mean-min: the returned estimate is the one computed from the PINNED cells, i.e. what check() says right afterwards
                ctx.check(ret == s.check(k), f"value returned by a saturating call differs from the estimate over the pinned cells ({qtype} query) {where}",
                          returned=ret, check=s.check(k))
                ctx.count("non_min_return_checks")
        data = bytes(s)
        loaded = type(s).frombytes(data, **extra, **bl.kw_hash(hf))
        ctx.check(bytes(loaded) == data, f"export -> load -> export is not the identity {where}")
        ctx.check(loaded.elements_added == total, f"the loaded copy reports another element total than the live sketch {where}", got=loaded.elements_added, want=total)
        if rng.random() < 0.25 and not extra:
            s = loaded  # "the structure can still be exported and loaded": the history goes on with the loaded copy
            ctx.count("histories_continued_on_a_loaded_copy")
        sat_hi += any(c == I32MAX for c in model)
        sat_lo += any(c == I32MIN for c in model)
        ctx.count("cell_comparisons", len(model))
    if sat_hi:
        ctx.count("cases_reaching_int32_max")
    if sat_lo:
        ctx.count("cases_reaching_int32_min")
    if total in (I64MAX, I64MIN):
        ctx.count("cases_reaching_int64_limit")
    case.nontrivial = bool(sat_hi or sat_lo)


# ------------------------------------------------------------------ counting Bloom

def wl_cbf(ctx, rng, case):
    import probables as P

    keys = gen.ascii_universe(rng, rng.randint(1, 5))
    est, rate = rng.choice([(1, 0.5), (2, 0.3), (3, 0.2), (2, 0.05), (5, 0.1), (10, 0.05)])
    hname, hf = gen.pick_hash(rng, keys, kind=rng.choice(["library_default", "default_fnv_1a", "default_sha256", "hand_mod3", "hand_all_one_cell",
                                                         "hand_same_key_coincide", "hand_pairs_collide", "hand_huge_values"]))
    f = P.CountingBloomFilter(est, rate, **bl.kw_hash(hf))
    m, kk = f.number_bits, f.number_hashes
    case.desc = {"kind": "counting-bloom", "est": est, "rate": rate, "bits": m, "hashes": kk, "hash": hname}
    model = [0] * m  # lower/upper bounds are equal unless a key addresses a cell several times
    total = 0
    out = Counter()
    saturated = coincide = 0
    for step in range(rng.randint(2, 12)):
        k = rng.choice(keys)
        pos = [h % m for h in f.hashes(k)[:kk]]
        mult = Counter(pos)
        if any(v > 1 for v in mult.values()):
            coincide += 1
        r = rng.random()
        before_cells = bl.cells_of(f)
        if r < 0.55:
            n = amount(rng, U32MAX)
            case.op("add", k, n)
            ret, exc = ctx.call(f.add, k, n)
            now = bl.cells_of(f)
            for c in range(m):
                if c in mult:
                    lo, hi = min(before_cells[c] + n, U32MAX), min(before_cells[c] + mult[c] * n, U32MAX)
                    if not (lo <= now[c] <= hi):
                        ctx.fail(f"add: cell {c} is not the saturating sum (step {step})", before=before_cells[c], amount=n, multiplicity=mult[c], got=now[c])
                elif now[c] != before_cells[c]:
                    ctx.fail(f"add changed a cell the key does not address (step {step})", cell=c, before=before_cells[c], got=now[c])
            total = min(total + n, U64MAX)
            out[k] += n
            want_ret = min(now[c] for c in mult)
            ctx.check(ret == want_ret and f.check(k) == want_ret, f"add did not return the pinned minimum (step {step})", returned=ret, check=f.check(k), want=want_ret)
        elif r < 0.85:
            minval = min(before_cells[c] for c in mult)
            if minval == U32MAX:
                n = amount(rng, U32MAX)
            else:
                cap = min(out[k], minval)
                if cap <= 0:
                    continue
                n = rng.randint(1, cap) if cap < 10 or rng.random() < 0.5 else cap
            case.op("remove", k, n)
            ret, exc = ctx.call(f.remove, k, n)
            now = bl.cells_of(f)
            if minval == U32MAX:
                ctx.check(now == before_cells, f"remove on a key whose minimum is pinned at 2^32-1 changed a cell (step {step})")
                ctx.check(ret == U32MAX, f"remove on a saturated key did not return the pinned value (step {step})", returned=ret)
                ctx.count("removals_refused_at_limit")
            else:
                for c in range(m):
                    if c in mult:
                        if before_cells[c] == U32MAX:
                            ctx.check(now[c] == U32MAX, f"a cell that had reached 2^32-1 was decremented (step {step})", cell=c, got=now[c])
                            ctx.count("saturated_cells_kept_on_remove")
                        else:
                            lo, hi = before_cells[c] - mult[c] * n, before_cells[c] - n
                            if not (max(lo, 0) <= now[c] <= hi):
                                ctx.fail(f"remove: cell {c} not decremented by the amount (step {step})", before=before_cells[c], amount=n, multiplicity=mult[c], got=now[c])
                    elif now[c] != before_cells[c]:
                        ctx.fail(f"remove changed a cell the key does not address (step {step})", cell=c)
                total -= n
                out[k] -= n
                ctx.check(ret == min(now[c] for c in mult) or ret == minval - n, f"remove returned neither the new minimum nor old minimum - amount (step {step})", returned=ret)
        else:
            g = P.CountingBloomFilter(est, rate, **bl.kw_hash(hf))
            k2, n2 = rng.choice(keys), amount(rng, U32MAX)
            g.add(k2, n2)
            gcells = bl.cells_of(g)
            op = rng.choice(["union", "intersection"])
            case.op(op, k2, n2)
            res, exc = ctx.call(getattr(f, op), g)
            ctx.check(res is not None, f"{op} of same-geometry filters returned None")
            ctx.check(bl.cells_of(f) == before_cells and bl.cells_of(g) == gcells, f"{op} modified an operand")
            rc = bl.cells_of(res)
            for c in range(m):
                a, b = before_cells[c], gcells[c]
                want = min(a + b, U32MAX) if (op == "union" or (a > 0 and b > 0)) else 0
                if rc[c] != want:
                    ctx.fail(f"{op}: cell {c} is not the saturating sum (step {step})", a=a, b=b, got=rc[c], want=want)
            if res.elements_added >= 0:
                data = bytes(res)
                ctx.check(bytes(P.CountingBloomFilter.frombytes(data, **bl.kw_hash(hf))) == data, f"{op} result: export -> load -> export is not the identity")
            ctx.count("unions_and_intersections")
            # chained merges: the result (whose element count is an ESTIMATE, possibly tiny next to near-limit cells) sometimes becomes
            # the filter under test, also united with itself
            if res.elements_added >= 0 and rng.random() < 0.6:
                if rng.random() < 0.4:
                    rr, exc = ctx.call(res.union, res)
                    rcells = bl.cells_of(res)
                    got = bl.cells_of(rr)
                    for c in range(m):
                        if got[c] != min(2 * rcells[c], U32MAX):
                            ctx.fail(f"union of a merge result with itself: cell {c} is not the saturating sum (step {step})", a=rcells[c], got=got[c])
                    ctx.count("chained_merges")
                f = res
                total = f.elements_added
                out = Counter()
                case.op("continue-with-the-result")
                ctx.count("chained_merges")
            continue
        where = f"after step {step} ({case.ops[-1]})"
        ctx.check(f.elements_added == total, f"element total differs from the saturating model {where}", got=f.elements_added, want=total)
        data = bytes(f)
        st = refimpl.parse_bloom(data, counting=True)
        ctx.check(st["cells"] == bl.cells_of(f) and st["added"] == total, f"exported cells/total differ from the live ones {where}")
        loaded = P.CountingBloomFilter.frombytes(data, **bl.kw_hash(hf))
        ctx.check(bytes(loaded) == data, f"export -> load -> export is not the identity {where}")
        ctx.check(loaded.elements_added == total and bl.cells_of(loaded) == bl.cells_of(f), f"the loaded copy reports another element total / other cells than the live filter {where}",
                  got=loaded.elements_added, want=total)
        hexed = P.CountingBloomFilter(hex_string=f.export_hex(), **bl.kw_hash(hf))
        ctx.check(bytes(hexed) == data and hexed.elements_added == total, f"hex export -> load -> export is not the identity {where}", got=hexed.elements_added, want=total)
        if rng.random() < 0.25:
            f = loaded  # "the structure can still be exported and loaded": the history goes on with the loaded copy
            ctx.count("cbf_histories_continued_on_a_loaded_copy")
        saturated += any(c == U32MAX for c in bl.cells_of(f))
        ctx.count("cell_comparisons", m)
    if saturated:
        ctx.count("cases_reaching_uint32_max")
    if saturated and coincide:
        ctx.count("cases_saturating_with_coinciding_positions")
    if total == U64MAX:
        ctx.count("cases_reaching_uint64_max")
    case.nontrivial = bool(saturated)


PROP = Prop(
    "C16",
    "exploration",
    rule=("short histories (2..12 calls) on tiny count-min sketches (width 1..4, depth 1..4) and counting Bloom filters (1..63 cells) with amounts drawn from "
          "{1..7, limit-3..limit+3, limit/2 +- 2, 2^31.., 2^32.., 2^63.., 2^64+1, 10^30}; add / remove / join / union / intersection; hash strategies "
          "incl. hand-written ones sending all positions of a key to one cell. Non-trivial = some cell reached a limit; distinct by hash of (parameters, operations)."),
    workloads=[
        Workload("cms", wl_cms, quick=1500, thorough=500000),
        Workload("cms_big", wl_cms_big, quick=5, thorough=60),
        Workload("cbf", wl_cbf, quick=1500, thorough=500000),
    ],
    assumptions=["a counting-Bloom cell addressed m times by one key may end anywhere between old+n and old+m*n (clamped): the library counts a position once per occurrence, a refactoring may count it once",
                 "counting-Bloom removals are legitimate (amount <= outstanding additions) unless the key's minimum is pinned at the limit",
                 "join: a receiver cell already at a limit may stay pinned or take the saturating sum"],
    required=["cell_comparisons", "cases_reaching_int32_max", "cases_reaching_int32_min", "cases_reaching_uint32_max", "cases_reaching_int64_limit",
              "cases_saturating_with_coinciding_positions", "removals_refused_at_limit", "joins", "unions_and_intersections", "chained_merges", "non_min_return_checks",
              "joins_with_an_all_zero_argument_whose_total_is_not_zero"],
)
