"""C07 - derived sizes honour the requested accuracy and are stable across reloads.

Monitor: a parameter sweep through the real constructors / loaders; the derived geometry is compared with formulas
recomputed independently in 60-digit decimal arithmetic (pv/refimpl.py).
"""
import math
import os
from decimal import Decimal

from .. import bl, gen, refimpl
from ..core import Prop, Workload

ONE = Decimal(1)
SL = Decimal("1e-12")


def n_values():
    ns = set(range(1, 65))
    for i in range(1, 31):
        for d in (-1, 0, 1):
            v = 2**i + d
            if 1 <= v <= 10**9:
                ns.add(v)
    for i in range(1, 10):
        for d in (-1, 0, 1):
            v = 10**i + d
            if 1 <= v <= 10**9:
                ns.add(v)
    return sorted(ns)


def p_values():
    ps = [2.0 ** -i for i in range(1, 31)]
    ps += [0.5, 0.4, 0.3, 0.25, 0.2, 0.15, 0.1, 0.05, 0.03, 0.02, 0.01, 0.005, 0.001, 1e-4, 1e-5, 1e-6, 1e-7, 1e-9, 1e-12, 1e-20, 1e-30, 1e-37]
    # rates that change when narrowed to a 32-bit float
    ps += [0.1 + 1e-9, 0.05000001, 1 / 3, 2 / 3, 0.123456789, 0.0123456789, 1e-3 + 1e-11, 0.7, 0.6999999999]
    # next to the boundary where number_hashes rounds to 0 (p ~ 2^-0.5): the worst rate/request ratio lives here
    ps += [0.6, 0.65, 0.69, 0.7, 0.705, 0.707, 0.7071, 0.70710, 0.707106, 0.7071067, 0.70710678, 0.7072, 0.708, 0.71, 0.75, 0.8, 0.9, 0.99]
    # next to the other rounding breakpoints of k (p = 2^-(j+0.5))
    for j in range(1, 12):
        b = 2.0 ** -(j + 0.5)
        ps += [b * (1 - 1e-6), b, b * (1 + 1e-6), b * 0.99, b * 1.01, b * (1 - 1e-10), b * (1 + 1e-10)]
    ps += [1.5e-45, 1e-45, 7e-46, 1e-46, 1e-50, 1e-300, 5e-324]  # around and below the smallest positive 32-bit float
    return ps


NS = n_values()
PS = p_values()


def lib_accepts(P, n, p, small):
    """returns (number_bits, number_hashes, fpr, obj-or-None) or None when the constructor rejects"""
    from probables.exceptions import InitializationError

    try:
        if small:
            f = P.BloomFilter(n, p)
            return f.number_bits, f.number_hashes, f.false_positive_rate, f
        get = getattr(P.BloomFilter, "_get_optimized_params", None)
        if get is None:
            return "skip"
        fpr, k, m = get(n, p)
        return m, k, fpr, None
    except InitializationError:
        return None


def check_bloom(ctx, P, n, p, rng, given=None, force_counting=False):
    """`given`: the same rate as another numeric type (Decimal, Fraction) - what is handed to the constructor instead of the float p"""
    sz = refimpl.bloom_sizing(n, p)
    if sz is None:
        if 0.0 < p < 1.0 and refimpl.f32(float(p)) == 0.0 and n >= 1:
            # a rate that is 0 as a 32-bit float: the promised size ceil(-n ln p32 / ln^2 2) is unbounded and the stored rate cannot
            # reproduce any geometry - the constructor has to refuse it (it does: the logarithm fails); accepting it is a violation
            try:
                f = P.BloomFilter(n, p)
            except Exception:
                ctx.count("bloom.rates_below_float32_refused")
                return
            ctx.fail(f"the constructor accepts est_elements={n}, rate={p!r} although the rate is 0 as a 32-bit float: no finite geometry honours it", bits=f.number_bits, hashes=f.number_hashes,
                     stored_rate=f.false_positive_rate)
        return
    ms, ks, p32 = sz
    approx_m = min(ms)
    small = approx_m <= 400_000
    got = lib_accepts(P, n, p if given is None else given, small)
    if got == "skip":
        ctx.count("bloom.huge_skipped_no_classmethod")
        return
    if got is None:
        ctx.count("bloom.rejected_by_constructor")
        return
    m, k, fpr, f = got
    ctx.count("bloom.configs_checked")
    ctx.count("bloom.configs_constructed" if small else "bloom.configs_sizing_only")
    where = f"for est_elements={n}, rate={p!r}" + ("" if given is None else f" given as {given!r}")
    ctx.check(m in ms, f"number_bits is not ceil(-n ln p32 / ln^2 2) {where}", got=m, want=sorted(ms), p32=p32)
    ctx.check(k >= 1, f"accepted configuration has number_hashes < 1 {where}", got=k)
    ctx.check(k in ks[m], f"number_hashes is not round(ln2 m/n) {where}", got=k, want=sorted(ks[m]), bits=m)
    ctx.check(fpr == p32, f"false_positive_rate is not the request narrowed to a 32-bit float {where}", got=fpr, want=p32)
    th = refimpl.bloom_theoretical_rate(n, m, k)
    ratio = th / Decimal(p32)
    ctx.maximum("bloom.worst_rate_over_request", float(ratio))
    ctx.check(ratio <= Decimal("1.07") * (ONE + SL), f"theoretical false-positive rate exceeds the request by more than 7% {where}",
              theoretical=float(th), request=p32, ratio=float(ratio), bits=m, hashes=k)
    ctx.observe("bloom.hashes_seen", k, cap=200)
    if f is not None:
        ctx.check(f.bloom_length == (m + 7) // 8, f"bloom_length is not ceil(number_bits/8) {where}", got=f.bloom_length, bits=m)
        ctx.check(f.export_size() == f.bloom_length + 20, f"export_size() inconsistent with bloom_length {where}", got=f.export_size())
        ctx.check(f.estimated_elements == n, f"estimated_elements differs {where}", got=f.estimated_elements)
        # same inputs, same geometry; reload has the geometry of the original
        g = P.BloomFilter(n, p)
        ctx.check((g.number_bits, g.number_hashes, g.false_positive_rate) == (m, k, fpr), f"two constructions disagree {where}")
        if approx_m <= 20000 and rng.random() < 0.5:
            data = bytes(f)
            ctx.check(len(data) == f.export_size(), f"exported length differs from export_size() {where}", got=len(data), want=f.export_size())
            for loader, obj in (("frombytes", P.BloomFilter.frombytes(data)), ("hex", P.BloomFilter(hex_string=f.export_hex()))):
                ctx.check((obj.number_bits, obj.number_hashes, obj.false_positive_rate, obj.estimated_elements, obj.bloom_length) == (m, k, fpr, n, f.bloom_length),
                          f"reload via {loader} has another geometry {where}",
                          got=(obj.number_bits, obj.number_hashes, obj.false_positive_rate, obj.estimated_elements), want=(m, k, fpr, n))
            ctx.count("bloom.reload_geometry_checks", 2)
        if approx_m <= 20000 and isinstance(n, int) and rng.random() < 0.12:
            # the same request on disk, at a path that is new or already holds something else (a longer / shorter / equally long
            # file left by an earlier filter): same inputs, same geometry - for the object, its file and every reopen
            import os

            path = os.path.join(ctx.tmpdir(), f"c07-{os.getpid()}-{ctx.counters['bloom.ondisk_constructions']}.blm")
            pre = rng.choice(["new", "longer", "longer", "shorter", "same_length", "held by an open filter", "held by an open filter"])
            lingering = None
            if pre == "held by an open filter":
                # the path is re-used while an earlier on-disk filter of another request still has it open; that handle is closed LAST
                lingering = P.BloomFilterOnDisk(path, n * rng.randint(2, 9) + 3, rng.choice([0.2, 0.05, 0.01]))
                lingering.add("left-over")
            elif pre == "longer":
                old = P.BloomFilterOnDisk(path, n * rng.randint(3, 40) + 7, rng.choice([0.2, 0.05, 0.01]))
                old.add("left-over")
                old.close()
            elif pre == "shorter":
                with open(path, "wb") as fh:
                    fh.write(bytes(P.BloomFilter(1, 0.5)))
            elif pre == "same_length":
                with open(path, "wb") as fh:
                    fh.write(b"\xa5" * (f.bloom_length + 20))
            d = P.BloomFilterOnDisk(path, n, p)
            geo = lambda o: (o.number_bits, o.number_hashes, o.false_positive_rate, o.estimated_elements, o.bloom_length, o.elements_added if n_in is not None else None)
            n_in = 0
            ctx.check(geo(d) == (m, k, fpr, n, f.bloom_length, 0), f"on-disk construction (path state: {pre}) has another geometry than the in-memory one {where}", got=geo(d), want=(m, k, fpr, n, f.bloom_length, 0))
            # the filter is USED before it is closed (keys added, cleared, exported): whatever happens to the cells, the geometry the file
            # records - and every reopen derives - stays the one of the request
            used = rng.choice(["untouched", "added", "added, cleared", "cleared", "added, cleared, added"])
            n_in = 0
            for part in used.split(", "):
                if part == "added":
                    for i in range(rng.randint(1, 5)):
                        d.add(f"c07-key-{i}")
                        n_in += 1
                elif part == "cleared":
                    d.clear()
                    n_in = 0
            ctx.check(geo(d) == (m, k, fpr, n, f.bloom_length, n_in), f"geometry of an on-disk filter changed while it was used ({used}) {where}", got=geo(d))
            if used != "untouched":
                cp = path + ".copy"
                d.export(cp)
                o = P.BloomFilter(filepath=cp)
                ctx.check(geo(o) == (m, k, fpr, n, f.bloom_length, n_in), f"export copy of an on-disk filter ({used}) loads with another geometry {where}", got=geo(o))
                os.unlink(cp)
                ctx.count("bloom.ondisk_filters_used_before_reopen")
            d.close()
            if lingering is not None:
                lingering.close()
                n_in = None  # (the element count a lingering handle leaves in the file is not judged: two writers, one counter)
            ctx.check(os.path.getsize(path) == f.bloom_length + 20, f"backing file of a newly constructed on-disk filter (path state: {pre}) has the wrong length {where}",
                      got=os.path.getsize(path), want=f.bloom_length + 20)
            for how, o in (("on-disk reopen", P.BloomFilterOnDisk(path)), ("filepath load", P.BloomFilter(filepath=path))):
                ctx.check(geo(o) == (m, k, fpr, n, f.bloom_length, n_in), f"{how} of an on-disk filter (path state: {pre}; {used}) has another geometry {where}", got=geo(o))
                if hasattr(o, "close"):
                    o.close()
            os.unlink(path)
            ctx.count("bloom.ondisk_constructions")
            ctx.count(f"bloom.ondisk_path_state.{pre}")
        if (approx_m <= 3000 and rng.random() < 0.3) or force_counting:
            c = P.CountingBloomFilter(n, p if given is None else given)
            ctx.check((c.number_bits, c.number_hashes, c.false_positive_rate) == (m, k, fpr), f"counting Bloom geometry differs from plain Bloom {where}")
            ctx.check(c.bloom_length == m and c.export_size() == 4 * m + 20 and len(bytes(c)) == 4 * m + 20, f"counting Bloom lengths inconsistent {where}",
                      bloom_length=c.bloom_length, export_size=c.export_size())
            c2 = P.CountingBloomFilter.frombytes(bytes(c))
            ctx.check((c2.number_bits, c2.number_hashes, c2.false_positive_rate, c2.bloom_length) == (m, k, fpr, m), f"reloaded counting Bloom geometry differs {where}")
            ctx.count("bloom.counting_checks")


def check_bloom_fractional(ctx, P, n, p):
    """est_elements given as a non-integral number (the constructor accepts any Number > 0): same formulas; if such a filter can be
    exported at all, its reload must have the geometry of the original"""
    from probables.exceptions import InitializationError

    sz = refimpl.bloom_sizing(n, p)
    if sz is None or min(sz[0]) > 200_000:
        return
    ms, ks, p32 = sz
    try:
        f = P.BloomFilter(n, p)
    except InitializationError:
        return
    where = f"for est_elements={n!r}, rate={p!r}"
    m, k = f.number_bits, f.number_hashes
    ctx.check(m in ms and k in ks.get(m, ()), f"geometry is not the documented one {where}", got=(m, k), bits=sorted(ms))
    for how in ("bytes", "hex"):
        try:
            g = P.BloomFilter.frombytes(bytes(f)) if how == "bytes" else P.BloomFilter(hex_string=f.export_hex())
        except Exception:
            ctx.count("bloom.fractional_est_export_refused")
            continue
        ctx.check((g.number_bits, g.number_hashes, g.bloom_length) == (m, k, f.bloom_length), f"reload via {how} has another geometry {where}",
                  got=(g.number_bits, g.number_hashes, g.bloom_length), want=(m, k, f.bloom_length))
    ctx.count("bloom.fractional_est_configs")


def wl_bloom_sweep(ctx, rng, case):
    import probables as P

    if case.index < len(NS):
        n = NS[case.index]
        ps = list(PS) + [rng.uniform(1e-6, 0.7) for _ in range(10)]
    else:
        n = rng.choice([rng.randint(1, 200), rng.randint(1, 10**5), rng.randint(1, 10**9), rng.choice(NS)])
        ps = [rng.choice(PS) for _ in range(20)] + [rng.uniform(1e-7, 0.72) for _ in range(20)] + [10 ** -rng.uniform(0.15, 30) for _ in range(20)]
    case.desc = {"est_elements": n, "n_rates": len(ps), "kind": "bloom", "rates_digest": hash(tuple(round(float(x), 15) for x in ps)) & 0xFFFFFFFF}
    for p in ps:
        check_bloom(ctx, P, n, float(p), rng)
    # requests whose geometry changes when the rate is NOT narrowed to single precision, the rate given as a float, a Decimal or a Fraction
    for n_e, text in rng.sample(gen.f32_edge_requests(), 4):
        how, r = gen.spell_rate(rng, text)
        check_bloom(ctx, P, n_e, float(text), rng, given=None if how == "float" else r, force_counting=n_e < 20000)
        ctx.count("bloom.float32_edge_requests")
        ctx.count(f"bloom.rate_given_as.{how}")
    if n <= 5000:
        for frac in (0.5, 0.25, 0.999):
            check_bloom_fractional(ctx, P, n + frac, float(rng.choice(ps)))
        check_bloom_fractional(ctx, P, n * 1.25 + 0.125, float(rng.choice(ps)))
    case.op("rates", len(ps))
    case.nontrivial = True


def wl_same_geometry_pairs(ctx, rng, case):
    """two filters built from DIFFERENT inputs that derive the SAME geometry are compatible operands; whatever (n, p) the result of their
    union / intersection reports must again derive the result's own geometry, and its reload must have it too"""
    import probables as P

    found = None
    for _ in range(200):
        n = rng.randint(2, 400)
        p = rng.choice([0.3, 0.2, 0.1, 0.065, 0.05, 0.03, 0.01, 0.004, 0.001])
        mk = refimpl.bloom_sizing_simple(n, p)
        if not mk or mk[1] < 1 or mk[0] > 50000:
            continue
        for _ in range(60):
            n2 = max(1, n + rng.choice([-2, -1, 1, 2, 3]))
            p2 = p * rng.uniform(0.6, 1.6)
            if not 0 < p2 < 0.7:
                continue
            if refimpl.bloom_sizing_simple(n2, p2) == mk:
                found = (n, p, n2, p2, mk)
                break
        if found:
            break
    if not found:
        return
    n, p, n2, p2, (m, k) = found
    case.desc = {"a": (n, p), "b": (n2, p2), "bits": m, "hashes": k, "kind": "same geometry from different inputs"}
    A, B = P.BloomFilter(n, p), P.BloomFilter(n2, p2)
    for i in range(rng.randint(0, 8)):
        A.add(f"a{i}")
        B.add(f"b{i}")
    for name, r in (("a.union(b)", A.union(B)), ("b.union(a)", B.union(A)), ("a.intersection(b)", A.intersection(B)), ("b.intersection(a)", B.intersection(A))):
        ctx.check(r is not None, f"{name} of two filters with identical geometry and hashing returned None", a=(n, p), b=(n2, p2))
        sz = refimpl.bloom_sizing(r.estimated_elements, r.false_positive_rate)
        ok = sz is not None and r.number_bits in sz[0] and r.number_hashes in sz[1].get(r.number_bits, ())
        ctx.check(ok and (r.number_bits, r.number_hashes) == (m, k), f"the (est_elements, rate) that the result of {name} reports do not derive its own geometry",
                  reported=(r.estimated_elements, r.false_positive_rate), geometry=(r.number_bits, r.number_hashes), operands=(m, k))
        if r.elements_added >= 0:
            g = P.BloomFilter.frombytes(bytes(r))
            ctx.check((g.number_bits, g.number_hashes, g.bloom_length) == (r.number_bits, r.number_hashes, r.bloom_length), f"the reload of the result of {name} has another geometry",
                      got=(g.number_bits, g.number_hashes), want=(r.number_bits, r.number_hashes))
    ctx.count("bloom.same_geometry_pairs")
    case.nontrivial = True


def wl_cms(ctx, rng, case):
    """count-min sketch sized by confidence and error rate"""
    import probables as P

    confs = [0.5, 0.75, 0.875, 1 - 2.0 ** -5, 1 - 2.0 ** -10, 0.9, 0.95, 0.99, 0.999, 0.001, 0.3, 0.51, 0.7500001, 0.8749999]
    errs = [1.0, 0.5, 0.25, 2 / 3, 2 / 7, 0.4, 0.1, 0.01, 0.001, 2 / 1000, 2 / 1001, 0.3333, 0.019999, 0.02, 0.020001, 1.9, 0.9999]
    todo = []
    tiny = [3e-10, 1e-10, 1e-11, 5e-12]  # just beside a breakpoint: closer than any sane tolerance, farther than float noise
    if case.index == 0:
        todo = [(c, e) for c in confs for e in errs]
    elif case.index == 1:
        for N in (1, 2, 3, 7, 49, 100, 1000, 1001, 2500):
            for d in tiny:
                todo += [(0.9, 2 / N * (1 - d)), (0.9, 2 / N * (1 + d))]
        for k in range(1, 17):
            for d in tiny:
                b = 1 - 2.0 ** -k
                todo += [(b * (1 + d), 0.1), (b * (1 - d), 0.1)]
        todo = [(c, e) for c, e in todo if 0 < c < 1]
    else:
        for _ in range(60):
            r = rng.random()
            c = rng.choice(confs) if r < 0.3 else (1 - 2.0 ** -rng.randint(1, 16) if r < 0.5 else rng.uniform(0.01, 0.99999))
            e = rng.choice(errs) if rng.random() < 0.3 else (2 / rng.randint(1, 3000) if rng.random() < 0.5 else rng.uniform(0.0008, 1.99))
            if rng.random() < 0.25:
                d = rng.choice(tiny) * rng.choice([1, -1])
                if rng.random() < 0.5:
                    e = 2 / rng.randint(1, 3000) * (1 + d)
                else:
                    c = min(0.9999999, (1 - 2.0 ** -rng.randint(1, 16)) * (1 + d))
            todo.append((c, e))
    # the request given as exact numbers of other numeric types the constructor accepts (decimal.Decimal, fractions.Fraction)
    from fractions import Fraction

    exact = [("0.95", "0.003"), ("0.9", "0.07"), ("0.99", "0.0003"), ("0.5", "0.002"), ("0.999", "0.3"), ("0.875", "0.0007")]
    if case.index == 0:
        todo += [(Decimal(c), Decimal(e)) for c, e in exact] + [(Fraction(c), Fraction(e)) for c, e in exact] + [(float(c), Decimal(e)) for c, e in exact[:3]]
        # EVERY two-digit confidence (and a few three-digit ones) spelled as a Decimal and as a Fraction
        for i in list(range(1, 100)) + [985, 995, 999, 876, 751]:
            text = f"0.{i:02d}" if i < 100 else f"0.{i}"
            todo += [(Decimal(text), Decimal("0.1")), (Fraction(text), Fraction(1, 10))]
        # confidences as close to 1 as the number types allow (dozens of rows)
        import math as _m

        todo += [(_m.nextafter(1.0, 0.0), 0.5), (1 - 2.0 ** -52, 0.5), (1 - 2.0 ** -40, 0.1), (1 - 2.0 ** -30 * 1.5, 0.1), (Fraction(10**18 - 1, 10**18), Fraction(1, 2)),
                 (Fraction(2**56 - 1, 2**56), Fraction(1, 3)), (Decimal("0.99999999999999999999"), Decimal("0.5")), (1 - 1e-15, 0.25)]
    elif rng.random() < 0.5:
        c, e = rng.choice(exact)
        e = str(max(round(rng.uniform(0.0003, 0.9), rng.randint(3, 5)), 0.001))  # (never rounded down to 0: a zero error rate is refused, as documented)
        todo.append((Decimal(c), Decimal(e)) if rng.random() < 0.5 else (Fraction(c), Fraction(e)))

    def D(x):
        return Decimal(x.numerator) / Decimal(x.denominator) if isinstance(x, Fraction) else Decimal(x)

    case.desc = {"kind": "count-min", "n_pairs": len(todo)}
    for conf, err in todo:
        cls = rng.choice([P.CountMinSketch, P.CountMeanSketch, P.CountMeanMinSketch, P.HeavyHitters, P.StreamThreshold])
        kw = {}
        s = cls(confidence=conf, error_rate=err, **kw)
        where = f"for confidence={conf!r}, error_rate={err!r} ({cls.__name__})"
        if not isinstance(err, float):
            ctx.count("cms.requests_as_decimal_or_fraction")
        w, d = s.width, s.depth
        ctx.check(isinstance(w, int) and isinstance(d, int) and w >= 1 and d >= 1, f"width/depth not positive integers {where}", width=w, depth=d)
        ctx.check(Decimal(2) / Decimal(w) <= D(err) * (ONE + SL), f"2/width exceeds the requested error rate {where}", width=w)
        # judged on the FAILURE probability (the slack is relative to 1 - confidence, not to the confidence: a confidence within 2^-52 of 1
        # must not be waved through by a tolerance that is a million times larger than what it asks for)
        ctx.check(ONE / (Decimal(2) ** d) <= (ONE - D(conf)) * (ONE + SL), f"1 - 2^-depth is below the requested confidence {where}", depth=d,
                  needed=str((ONE / (ONE - D(conf))).ln() / Decimal(2).ln()))
        ctx.check(s.confidence == conf and s.error_rate == err, f"confidence/error_rate accessors do not report the request {where}")
        s2 = cls(confidence=conf, error_rate=err)
        ctx.check((s2.width, s2.depth) == (w, d), f"two constructions disagree {where}")
        if not (cls is P.CountMeanMinSketch and w == 1):
            s.add("k", 2)  # (the mean-min query divides by width-1: a width-1 mean-min sketch cannot answer, outside every property)
        r = cls.frombytes(bytes(s))
        ctx.check((r.width, r.depth) == (w, d), f"reloaded sketch has another geometry {where}", got=(r.width, r.depth), want=(w, d))
        ctx.check(len(bytes(s)) == 4 * w * d + 16, f"export length is not 4*width*depth+16 {where}", got=len(bytes(s)))
        ctx.count("cms.configs_checked")
        ctx.observe("cms.depths_seen", d, cap=64)
    case.nontrivial = True


def wl_cuckoo(ctx, rng, case):
    """cuckoo filters sized by error rate: 2*bucket_size/2^bits <= error rate; byte-sized constructor: error rate = 2b/2^bits"""
    import probables as P

    todo = []
    if case.index == 0:
        for b in (1, 2, 3, 4, 5, 8):
            for bits in range(2, 33):
                e = 2 * b / 2.0**bits
                todo += [(e, b), (e * (1 + 1e-6), b), (e * (1 - 1e-6), b)]
    elif case.index == 1:
        for b in (1, 2, 3, 4, 8):
            for bits in (2, 3, 8, 9, 16, 24, 31, 32):
                for d in (3e-10, 1e-10, 1e-11):
                    e = 2 * b / 2.0**bits
                    todo += [(e * (1 + d), b), (e * (1 - d), b)]
    else:
        for _ in range(60):
            b = rng.choice([1, 2, 3, 4, 5, 6, 7, 8])
            e = 10 ** -rng.uniform(0.01, 8.5) if rng.random() < 0.7 else rng.uniform(1e-6, 0.9)
            if rng.random() < 0.2:
                e = 2 * b / 2.0 ** rng.randint(2, 32) * (1 + rng.choice([3e-10, 1e-10, -1e-10, 1e-11, -1e-11]))
            todo.append((e, b))
    case.desc = {"kind": "cuckoo", "n_pairs": len(todo)}
    for err, b in todo:
        need = Decimal(2 * b) / Decimal(err)
        if need > Decimal(2) ** 32 * (ONE - SL):
            continue  # not representable with <= 32 fingerprint bits
        for cls in (P.CuckooFilter, P.CountingCuckooFilter):
            c = cls.init_error_rate(err, capacity=rng.randint(1, 12), bucket_size=b, max_swaps=5)
            bits = c.fingerprint_size_bits
            where = f"for error_rate={err!r}, bucket_size={b} ({cls.__name__})"
            ctx.check(isinstance(bits, int) and 1 <= bits <= 32, f"fingerprint bits outside 1..32 {where}", bits=bits)
            ctx.check(Decimal(2 * b) / (Decimal(2) ** bits) <= Decimal(err) * (ONE + SL), f"2*bucket_size/2^bits exceeds the requested error rate {where}", bits=bits)
            ctx.check(c.error_rate == err, f"error_rate accessor does not report the request {where}", got=c.error_rate)
            c.add("k1")
            c.add("k2")
            r = cls.frombytes(bytes(c), error_rate=err)
            ctx.check(r.fingerprint_size_bits == bits and r.bucket_size == b and r.capacity == c.capacity, f"reloaded filter has another geometry {where}",
                      got=(r.fingerprint_size_bits, r.bucket_size, r.capacity), want=(bits, b, c.capacity))
            ctx.count("cuckoo.configs_checked")
            ctx.observe("cuckoo.bits_seen", bits, cap=64)
            if bits <= 9 and rng.random() < 0.5:
                # the table GROWS (explicit expansions, up to more buckets than there are fingerprint values): the width is a function of the
                # error rate and the bucket size only - the grown filter and every reload of it, through both loaders, keep it
                g = cls.init_error_rate(err, capacity=rng.choice([3, 8, 32]), bucket_size=b, max_swaps=20, expansion_rate=rng.choice([2, 4]))
                for i in range(6):
                    g.add(f"grow-{i}")
                while g.capacity <= 2 ** bits and g.capacity < 3000:
                    g.expand()
                ctx.check(g.fingerprint_size_bits == bits, f"fingerprint width changed while the table grew {where}", got=g.fingerprint_size_bits, want=bits, capacity=g.capacity)
                path = os.path.join(ctx.tmpdir(), f"c07-grown-{os.getpid()}.cko")
                g.export(path)
                for how, r2 in (("frombytes(error_rate)", cls.frombytes(bytes(g), error_rate=err)), ("load_error_rate", cls.load_error_rate(err, path))):
                    ctx.check((r2.fingerprint_size_bits, r2.bucket_size, r2.capacity) == (bits, b, g.capacity), f"a grown filter reloaded via {how} has another geometry {where}",
                              got=(r2.fingerprint_size_bits, r2.bucket_size, r2.capacity), want=(bits, b, g.capacity))
                    ctx.check(all(r2.check(f"grow-{i}") for i in range(6)), f"a grown filter reloaded via {how} does not report its keys {where}")
                os.unlink(path)
                ctx.count("cuckoo.grown_tables_reloaded")
            # a REFUSED change of the fingerprint width (documented range 1..4 bytes) must leave the derived geometry as it was
            for bad in rng.sample([0, 5, -1, 0.5, 4.5, 100, -8], 2):
                try:
                    c.fingerprint_size = bad
                    refused = False
                except ValueError:
                    refused = True
                if not refused:
                    break  # accepted: a different contract, not judged here
                ctx.check(c.fingerprint_size_bits == bits and c.error_rate == err, f"a refused fingerprint_size = {bad!r} changed the derived geometry {where}",
                          bits_before=bits, bits_after=c.fingerprint_size_bits, error_rate=c.error_rate)
                r = cls.frombytes(bytes(c), error_rate=err)
                ctx.check(r.fingerprint_size_bits == c.fingerprint_size_bits, f"after a refused fingerprint_size = {bad!r} the reloaded filter has another geometry {where}")
                ctx.count("cuckoo.refused_width_changes")
    for fs in (1, 2, 3, 4):
        for b in (1, 2, 4, 8):
            c = P.CuckooFilter(capacity=4, bucket_size=b, max_swaps=3, finger_size=fs)
            want = Decimal(2 * b) / Decimal(2) ** (8 * fs)
            ctx.check(abs(Decimal(c.error_rate) - want) <= want * SL, "error_rate of a byte-sized fingerprint is not 2*bucket_size/2^bits", got=c.error_rate, want=float(want))
            ctx.check(c.fingerprint_size_bits == 8 * fs and c.fingerprint_size == fs, "fingerprint size accessors inconsistent", bits=c.fingerprint_size_bits)
    case.nontrivial = True


PROP = Prop(
    "C07",
    "exploration",
    rule=("bloom_sweep: est_elements over {1..64} U {2^i, 2^i +- 1} U {10^i, 10^i +- 1} up to 1e9 (one case each) x ~150 rates (dyadic 2^-1..2^-30, "
          "decimal, rates that change under float32 narrowing, rates around every rounding breakpoint of number_hashes incl. the k=0/1 boundary at "
          "2^-0.5) plus random ones; further cases draw both at random. cms / cuckoo: fixed grids (index 0) incl. exact breakpoints 2/w, 1-2^-d, "
          "2b/2^f, then random pairs. Each case covers 60-170 configurations; all are distinct (different n or random draws); non-trivial = at least one accepted configuration checked."),
    workloads=[
        Workload("bloom_sweep", wl_bloom_sweep, quick=len(NS) + 60, thorough=len(NS) + 100000),
        Workload("same_geometry_pairs", wl_same_geometry_pairs, quick=60, thorough=6000),
        Workload("cms", wl_cms, quick=30, thorough=12000),
        Workload("cuckoo", wl_cuckoo, quick=20, thorough=8000),
    ],
    assumptions=["formulas evaluated in 60-digit decimal arithmetic on the exact values of the float inputs; either neighbour accepted when the exact "
                 "argument of ceil/round is within 1e-12 (relative) of a breakpoint (float noise is ~1e-15; a tolerance-style rounding bug is >= 1e-10)",
                 "filters above 400 000 bits are sized through the class-level sizing routine without allocating the array"],
    required=["bloom.configs_checked", "bloom.same_geometry_pairs", "bloom.fractional_est_configs", "bloom.configs_constructed", "bloom.reload_geometry_checks", "cms.configs_checked", "cuckoo.configs_checked"],
)
