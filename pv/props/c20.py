"""C20 - Bitarray behaves as a fixed-length vector of bits.

Oracle: a Python list of n ints.  After EVERY operation the whole observable state
(as_string, num_bits_set, check_bit / is_bit_set / [] at every index, size, size_bytes)
is compared with the list; rejected operations must raise and leave everything as it was.
"""
import math

from .. import repo
from ..core import Prop, Workload

REJECT = (IndexError, ValueError, TypeError)


def _mk(n, bits):
    from probables.utilities import Bitarray

    ba = Bitarray(n)
    for i, b in enumerate(bits):
        if b:
            ba.set_bit(i)
    return ba


def compare(ctx, ba, model, where):
    n = len(model)
    ctx.count("full_state_comparisons")
    s = ba.as_string()
    ctx.check(s == "".join(str(b) for b in model), f"as_string differs from the list model {where}", got=s, want=model)
    ctx.check(ba.num_bits_set() == sum(model), f"num_bits_set differs {where}", got=ba.num_bits_set(), want=sum(model))
    ctx.check(ba.size == n, f"size differs {where}", got=ba.size, want=n)
    ctx.check(ba.size_bytes == math.ceil(n / 8), f"size_bytes differs {where}", got=ba.size_bytes)
    for i in range(n):
        a, b, c = ba.check_bit(i), ba.is_bit_set(i), ba[i]
        if not (a == model[i] and b == bool(model[i]) and c == model[i] and isinstance(b, bool)):
            ctx.fail(f"read of bit {i} differs from the model {where}", check_bit=a, is_bit_set=b, getitem=c, want=model[i])
    ctx.count("oracle_evaluations", n)


def apply(ctx, ba, model, op, idx, val=None):
    """apply one operation to both; returns nothing, raises Violation on disagreement"""
    n = len(model)
    valid_idx = isinstance(idx, int) and 0 <= idx < n
    if isinstance(idx, float) and 0 <= idx <= n - 1:
        return  # an in-range non-integral index is not covered by the statement (rejecting it or truncating it are both arguable)
    where = f"after {op}({idx}{'' if val is None else ',' + repr(val)}) on size {n}"
    ctx.count(f"op.{op}")
    if op in ("set_bit", "clear_bit"):
        try:
            getattr(ba, op)(idx)
            raised = None
        except REJECT as e:
            raised = e
        if valid_idx:
            ctx.check(raised is None, f"valid index rejected {where}", exc=repr(raised))
            model[idx] = 1 if op == "set_bit" else 0
        else:
            ctx.count("rejections_expected")
            ctx.check(raised is not None, f"index outside 0..n-1 accepted {where}")
    elif op == "setitem":
        try:
            ba[idx] = val
            raised = None
        except REJECT as e:
            raised = e
        ok_val = isinstance(val, int) and val in (0, 1)
        if valid_idx and ok_val:
            ctx.check(raised is None, f"valid assignment rejected {where}", exc=repr(raised))
            model[idx] = int(val)
        elif valid_idx and isinstance(val, float) and val in (0.0, 1.0):
            # another spelling of 0 / 1: refusing it or writing that bit are both within the statement
            if raised is None:
                model[idx] = int(val)
            ctx.count("float_spellings_of_0_and_1")
        else:
            ctx.count("rejections_expected")
            ctx.check(raised is not None, f"invalid index or value accepted {where}")
    elif op in ("check_bit", "is_bit_set", "getitem"):
        try:
            got = ba[idx] if op == "getitem" else getattr(ba, op)(idx)
            raised = None
        except REJECT as e:
            raised = e
        if valid_idx:
            ctx.check(raised is None and got == model[idx], f"read differs {where}", got=None if raised else got, exc=repr(raised))
        else:
            ctx.count("rejections_expected")
            ctx.check(raised is not None, f"read outside 0..n-1 accepted {where}")
    elif op == "clear":
        ba.clear()
        for i in range(n):
            model[i] = 0
    else:
        raise AssertionError(op)
    compare(ctx, ba, model, where)


def base_states(n, rng):
    states = [[0] * n, [1] * n, [(i % 2) for i in range(n)], [((i + 1) % 2) for i in range(n)],
              [1 if i % 8 == 7 else 0 for i in range(n)], [0 if i % 8 == 0 else 1 for i in range(n)]]
    for _ in range(3):
        states.append([rng.randint(0, 1) for _ in range(n)])
    out = []
    for s in states:
        if s not in out:
            out.append(s)
    return out


def wl_exhaustive(ctx, rng, case):
    """sizes 1..20 (index = size-1): every single operation at every index -2..n+1 (and far out of range)
    from every base state"""
    n = case.index + 1
    case.desc = {"size": n, "kind": "every op x every index x base states"}
    ctx.observe("sizes", n)
    ctx.observe("size_mod_8", n % 8)
    idxs = list(range(-2, n + 2)) + [n + 7, n + 8, 8 * math.ceil(n / 8), -n, 10**6, -0.5, -0.999, n - 0.5, n + 0.25, float(n), -1.0]
    # indices that are a valid position plus / minus a multiple of a machine-word modulus (what a fixed-width index would wrap to)
    idxs += [w * s + k for w in (2**8, 2**16, 2**32, 2**63, 2**64, 3 * 2**64, 2**128) for s in (1, -1) for k in (0, n - 1, n // 2)]
    nstates = 0
    for st in base_states(n, rng):
        nstates += 1
        for idx in idxs:
            for op, val in (("set_bit", None), ("clear_bit", None), ("setitem", 0), ("setitem", 1), ("setitem", True),
                            ("setitem", False), ("setitem", 2), ("setitem", -1), ("setitem", 255),
                            # values that are neither 0 nor 1 although they lie between them / truncate to them / spell them
                            ("setitem", 0.5), ("setitem", 1.5), ("setitem", -0.5), ("setitem", 0.999), ("setitem", float("nan")),
                            ("setitem", "1"), ("setitem", "0"), ("setitem", None), ("setitem", 1.0), ("setitem", 0.0), ("setitem", 2.0),
                            ("check_bit", None), ("is_bit_set", None), ("getitem", None)):
                ba = _mk(n, st)
                model = list(st)
                apply(ctx, ba, model, op, idx, val)
        ba = _mk(n, st)
        model = list(st)
        apply(ctx, ba, model, "clear", None)
    case.op("states", nstates, "indices", len(idxs))
    case.nontrivial = True


def wl_random(ctx, rng, case):
    """random operation sequences on one array, sizes 1..70"""
    n = rng.choice([rng.randint(1, 70), rng.choice([7, 8, 9, 15, 16, 17, 31, 32, 33, 63, 64, 65])])
    if case.index % 25 == 3:
        n = rng.choice([255, 256, 257, 1000, 1023, 1024, 1025, 4096, 4097, 5000])  # beyond one machine word / one page of bits
    if case.index % 50 == 7:
        n = rng.choice([8184, 8185, 8191, 8192, 8193, 16384, 32768, 65535, 65536, 65537])  # whole KiB blocks of backing bytes
    huge = n > 6000
    from probables.utilities import Bitarray

    ba = Bitarray(n)
    model = [0] * n
    case.desc = {"size": n}
    ctx.observe("sizes", n)
    ctx.observe("size_mod_8", n % 8)
    compare(ctx, ba, model, "after construction")
    steps = rng.randint(5, 40) if not huge else 8
    for stepno in range(steps):
        r = rng.random()
        idx = rng.randint(0, n - 1) if rng.random() < 0.8 else rng.choice([-1, -2, n, n + 1, n + 8, -n, 8 * math.ceil(n / 8), 2**64 + rng.randrange(n), -(2**64) + rng.randrange(n),
                                                                            2**32 + rng.randrange(n), 2**63 + rng.randrange(n), 3 * 2**64 + rng.randrange(n)])
        if r < 0.3:
            op, val = "set_bit", None
        elif r < 0.5:
            op, val = "clear_bit", None
        elif r < 0.8:
            op, val = "setitem", rng.choice([0, 1, 0, 1, 0, 1, 0, 1, True, False, 2, -1, 3, 0.5, 1.5, -0.25, "1", None, 1.0])
        elif r < 0.97:
            op, val = rng.choice(["check_bit", "is_bit_set", "getitem"]), None
        else:
            op, val, idx = "clear", None, None
        if huge and stepno in (3, 6):
            op, val, idx = "clear", None, None  # a clear in the middle of the history of a block-sized array
        case.op(op, idx, val)
        apply(ctx, ba, model, op, idx, val)
    case.nontrivial = len(case.ops) >= 5 and sum(model) >= 0


def wl_ctor(ctx, rng, case):
    """constructor: sizes >= 1 accepted and zeroed, anything else rejected"""
    from probables.utilities import Bitarray

    n = [1, 2, 7, 8, 9, 64, 65, 1000, 4097][case.index % 9]
    case.desc = {"size": n, "kind": "constructor"}
    ba = Bitarray(n)
    compare(ctx, ba, [0] * n, "after construction")
    for bad in (0, -1, -8, 1.5, "8", None):
        try:
            Bitarray(bad)
            ctx.fail(f"Bitarray({bad!r}) accepted")
        except REJECT:
            ctx.count("rejections_expected")
    case.nontrivial = True


def wl_fill_all(ctx, rng, case):
    """arrays of 256 .. 4100 bits in which EVERY bit is set (random order, through set_bit and item assignment) and cleared again one by one:
    full bytes, full 64- / 256- / 512-bit blocks and the completely full array occur on the way; compared with the list at every multiple of
    64 and around 255 / 256 / 65535"""
    from probables.utilities import Bitarray

    n = [256, 300, 512, 1000, 257, 4099][case.index % 6]
    ba = Bitarray(n)
    model = [0] * n
    order = list(range(n))
    if case.index % 2:
        rng.shuffle(order)
    case.desc = {"size": n, "kind": "every bit set, then every bit cleared", "order": "random" if case.index % 2 else "ascending"}
    for phase, op in (("set", "set_bit"), ("clear", "clear_bit")):
        for j, idx in enumerate(order):
            # (the operations are applied directly - the full comparison with the list runs at the marks below, not after every call)
            if j % 3 == 0:
                ba[idx] = 1 if phase == "set" else 0
            else:
                getattr(ba, op)(idx)
            model[idx] = 1 if phase == "set" else 0
            ctx.count(f"op.{op}")
            done = j + 1
            if ba.check_bit(idx) != model[idx]:
                ctx.fail(f"bit {idx} does not read back what was just written ({phase} #{done} on size {n})")
            if done % (64 if n <= 600 else 512) == 0 or done in (255, 256, 257, n - 1, n):
                compare(ctx, ba, model, f"after {done} bits were {phase} on size {n}")
        if phase == "set":
            apply(ctx, ba, model, "set_bit", order[0])  # setting a set bit of a full array changes nothing
            compare(ctx, ba, model, f"after re-setting a bit of the completely full array of size {n}")
        rng.shuffle(order)
    ctx.count("fill_all_cases")
    case.nontrivial = True


def wl_point_reads(ctx, rng, case):
    """arrays of a few hundred to 300 000 bits used the way a filter uses them: point reads and point writes only (test-and-set, read after
    write, neighbours within one byte, far jumps), each read compared with the list model at once - and NO whole-array accessor in between
    (a full scan after every call would re-prime anything remembered between two point reads); the full comparison comes at the end"""
    from probables.utilities import Bitarray

    n = rng.choice([300, 2047, 2048, 2057, 2100, 4096, 5000, 20000, 65535, 65536, 65539, 300000])
    ba = Bitarray(n)
    model = [0] * n
    case.desc = {"size": n, "kind": "point reads and writes only"}
    ctx.observe("sizes", n)
    readers = (lambda i: ba.check_bit(i), lambda i: int(ba.is_bit_set(i)), lambda i: ba[i])

    def rd(i, where):
        got = rng.choice(readers)(i)
        ctx.counters["oracle_evaluations"] += 1
        if got != model[i]:
            ctx.fail(f"point read of bit {i} differs from the list model {where} (size {n})", got=got, want=model[i])

    def wr(i, v):
        how = rng.randrange(3)
        if how == 0:
            ba[i] = v
        elif v:
            ba.set_bit(i)
        else:
            ba.clear_bit(i)
        model[i] = v

    hot = [rng.randrange(n) for _ in range(4)] + [n - 1, n - 2, 0, max(0, n - 9)]
    for step in range(rng.randint(40, 160)):
        i = rng.choice(hot) if rng.random() < 0.6 else rng.randrange(n)
        j = min(n - 1, (i // 8) * 8 + rng.randrange(8))  # a bit of the same byte
        r = rng.random()
        if r < 0.3:
            rd(i, "before a write"), wr(i, 1 - model[i]), rd(i, "right after it was written")  # test-and-set / test-and-clear
        elif r < 0.55:
            rd(i, "before a write to its neighbour"), wr(j, rng.randint(0, 1)), rd(i, "after a write to a neighbour in its byte"), rd(j, "after it was written")
        elif r < 0.7:
            wr(i, rng.randint(0, 1)), rd(i, "right after it was written")
        elif r < 0.9:
            rd(i, "in a run of reads"), rd(j, "in a run of reads")
        else:
            wr(i, 1), wr(j, 0), rd(i, "after two writes to its byte") if i != j else rd(j, "after two writes")
        ctx.count("point_operations_without_a_scan_in_between")
    compare(ctx, ba, model, f"at the end of a history of point reads and writes (size {n})")
    ctx.count("point_read_histories")
    if n > 2056:
        ctx.count("point_read_histories_beyond_2056_bits")
    case.nontrivial = True


def wl_huge(ctx, rng, case):
    """arrays of half a million to a few million bits (64 KiB .. 512 KiB of backing bytes: beyond any block a whole-array accessor might
    work in), sparsely set - first and last bit, both sides of every multiple of 65536 bytes, random positions - and compared through the
    whole-array accessors (as_string against the model's string, num_bits_set) and point reads of every touched position and its neighbours"""
    from probables.utilities import Bitarray

    n = [524287, 524288, 524289, 600003, 1048576 + 7, 2 * 524288, 2**21 + 5, 3 * 524288 - 1][case.index % 8]
    ba = Bitarray(n)
    model = bytearray(n)
    case.desc = {"size": n, "kind": "huge sparse array"}
    ctx.observe("sizes", n)
    edges = [p for b in range(0, n + 524288, 524288) for p in (b - 9, b - 8, b - 1, b, b + 1, b + 7, b + 8) if 0 <= p < n]
    touched = set()

    def audit(where):
        s = ba.as_string()
        want = bytes(48 + b for b in model).decode()
        ctx.counters["oracle_evaluations"] += n
        if s != want:
            first = next((i for i in range(min(len(s), n)) if s[i] != want[i]), None)
            ctx.fail(f"as_string differs from the model {where} (size {n})", first_difference=first, length=len(s), ones=s.count("1"), want_ones=want.count("1"))
        ctx.check(ba.num_bits_set() == sum(model), f"num_bits_set differs {where} (size {n})", got=ba.num_bits_set(), want=sum(model))
        for p in sorted(touched):
            for q in (p - 1, p, p + 1):
                if 0 <= q < n and not (ba.check_bit(q) == model[q] == ba[q] and ba.is_bit_set(q) == bool(model[q])):
                    ctx.fail(f"read of bit {q} differs from the model {where} (size {n})", want=model[q])
        ctx.count("full_state_comparisons")

    audit("after construction")
    for rnd in range(3):
        for p in rng.sample(edges, min(len(edges), 8)) + [0, n - 1] + [rng.randrange(n) for _ in range(8)]:
            v = 1 if rng.random() < 0.75 else 0
            if rng.random() < 0.5:
                ba[p] = v
            elif v:
                ba.set_bit(p)
            else:
                ba.clear_bit(p)
            model[p] = v
            touched.add(p)
        audit(f"after round {rnd} of sparse writes")
    ba.clear()
    model = bytearray(n)
    audit("after clear")
    ctx.count("huge_arrays")
    case.nontrivial = True


def wl_dense_then_clear(ctx, rng, case):
    """arrays of 33 000 .. 140 000 bits in which THOUSANDS of different bytes are written (every 8th / 5th / 3rd bit, or random positions)
    before a clear(): the clear must reach every one of them - and the array must take writes and clears afterwards like a new one"""
    from probables.utilities import Bitarray

    n = [33000, 40001, 65536, 70000, 100003, 140000][case.index % 6]
    ba = Bitarray(n)
    model = bytearray(n)
    stride = rng.choice([8, 8, 5, 3, 16])
    case.desc = {"size": n, "kind": "thousands of bytes written, then clear", "stride": stride}
    pos = list(range(rng.randrange(stride), n, stride)) if rng.random() < 0.7 else rng.sample(range(n), min(n, 9000))
    for i, p in enumerate(pos):
        if i % 3:
            ba.set_bit(p)
        else:
            ba[p] = 1
        model[p] = 1
    ctx.maximum("most_distinct_bytes_written_before_a_clear", len({p // 8 for p in pos}))
    ctx.check(ba.num_bits_set() == sum(model), f"num_bits_set differs after {len(pos)} writes on size {n}", got=ba.num_bits_set(), want=sum(model))
    for rnd in range(3):
        ba.clear()
        model = bytearray(n)
        left = [p for p in pos[:: max(1, len(pos) // 600)] + [0, n - 1] if ba.check_bit(p)]
        ctx.counters["oracle_evaluations"] += n
        ctx.check(not left and ba.num_bits_set() == 0 and "1" not in ba.as_string(), f"bits still set after clear() #{rnd + 1} of an array of {n} bits in which "
                  f"{len({p // 8 for p in pos})} different bytes had been written", still_set=left[:6], num_bits_set=ba.num_bits_set())
        for p in rng.sample(range(n), 5):
            ba.set_bit(p)
            model[p] = 1
        ctx.check(ba.num_bits_set() == 5 and all(ba.check_bit(p) for p in range(n) if model[p]), f"an array that was cleared does not take writes like a new one (size {n})")
        ctx.count("full_state_comparisons")
    ctx.count("dense_then_clear_cases")
    case.nontrivial = True


def wl_many_clears(ctx, rng, case):
    """LONG lives: an array that is written once and then cleared hundreds or tens of thousands of times (a scratch bitmap cleared per
    request) must stay all zero - checked around every power-of-two number of clears - and must still take writes afterwards"""
    from probables.utilities import Bitarray

    n = [13, 100, 1000, 8, 513, 4096][case.index % 6]
    ba = Bitarray(n)
    model = [0] * n
    for idx in rng.sample(range(n), min(n, 5)) + [0, n - 1]:
        ba.set_bit(idx)
    total = 70000 if case.index % 6 in (0, 3) else 1100
    marks = {c + d for c in (1, 2, 127, 128, 255, 256, 511, 512, 1023, 1024, 32767, 32768, 65535, 65536) for d in (-1, 0, 1)}
    case.desc = {"size": n, "clears": total, "kind": "many clears"}
    for c in range(1, total + 1):
        ba.clear()
        if c in marks or c == total:
            compare(ctx, ba, model, f"after {c} clears of size {n}")
            ctx.count("many_clears_marks_compared")
    for idx in (0, n // 2, n - 1):
        apply(ctx, ba, model, "set_bit", idx)
        compare(ctx, ba, model, f"after set_bit({idx}) following {total} clears of size {n}")
    apply(ctx, ba, model, "clear", None)
    compare(ctx, ba, model, f"after one more clear of size {n}")
    ctx.maximum("most_clears_of_one_array", total)
    case.nontrivial = True


PROP = Prop(
    "C20",
    "exploration",
    rule=("workload `exhaustive`: for each size 1..20 (thorough: 1..48), each of <=9 base states, every operation "
          "(set_bit, clear_bit, []= with 0/1/True/False/2/-1/255, check_bit, is_bit_set, []) at every index -2..n+1 "
          "plus far out-of-range ones, full-state comparison against a Python list after each (this sub-space is enumerated "
          "completely); workload `random`: random operation sequences for sizes 1..70. A case is non-trivial when it executed "
          ">= 5 operations; distinct by hash of (size, operation sequence)."),
    workloads=[
        Workload("exhaustive", wl_exhaustive, quick=20, thorough=48, exhaustive=True),
        Workload("ctor", wl_ctor, quick=9, thorough=9),
        Workload("random", wl_random, quick=400, thorough=300000),
        Workload("many_clears", wl_many_clears, quick=6, thorough=24),
        Workload("fill_all", wl_fill_all, quick=6, thorough=60),
        Workload("point_reads", wl_point_reads, quick=60, thorough=6000),
        Workload("huge", wl_huge, quick=8, thorough=64),
        Workload("dense_then_clear", wl_dense_then_clear, quick=6, thorough=60),
    ],
    assumptions=["values passed to []= are ints/bools, as the signature says",
                 "any of IndexError/ValueError/TypeError counts as 'rejected with an error'"],
    required=["full_state_comparisons", "rejections_expected", "point_read_histories_beyond_2056_bits", "huge_arrays", "dense_then_clear_cases"],
    shards={"quick": 4, "thorough": 16},
)
