"""C09 - expanding Bloom filter grows exactly when its newest filter is full.

Monitor shape: history + FIFO growth model.  The per-filter insertion counts are parsed independently from the exported
stream after EVERY call and compared with the model; whether an add is effective is decided by the harness before the
call from the filter's own check(), so Bloom false positives are handled exactly as the statement says.
"""
import math

from .. import bl, gen, refimpl
from ..core import Prop, Workload


def stream_state(f):
    st = refimpl.parse_expanding(bytes(f))
    return st, [c for c, _ in st["filters"]], [b for _, b in st["filters"]]


def wl_history(ctx, rng, case):
    import probables as P

    est = rng.choice([1, 1, 2, 2, 3, 3, 4, 5, 6, 25])
    for _ in range(50):
        rate = rng.choice([0.5, 0.3, 0.2, 0.1, 0.05, 0.01, 0.001, 1e-4])
        mk = refimpl.bloom_sizing_simple(est, rate)
        if mk and mk[1] >= 1:
            break
    keys = gen.universe(rng, rng.randint(3, 30))
    hname, hf = gen.pick_hash(rng, keys, kind=rng.choice(["library_default", "default_fnv_1a", "default_md5", "default_sha256", "decorated_int_sha512",
                                                          "decorated_bytes_blake2b", "hand_pairs_collide", "hand_mod3", "hand_same_key_coincide"]))
    if rng.random() < 0.1:
        from probables.hashes import default_fnv_1a as _d

        hname, hf = "hand_generous_depth", gen.GenerousHash(hf or _d, rng.randint(1, 4))
    use_push = rng.random() < 0.4
    sc = bl.Scratch(ctx, case)
    case.desc = {"est": est, "rate": rate, "hash": hname, "n_keys": len(keys), "pushes": use_push}
    ctx.observe("est_elements", est)
    try:
        f = P.ExpandingBloomFilter(est_elements=est, false_positive_rate=rate, **bl.kw_hash(hf))
        sib = None
        if rng.random() < 0.3:
            from probables.hashes import default_md5 as _md5

            sib = P.ExpandingBloomFilter(est_elements=est, false_positive_rate=rate, **bl.kw_hash(_md5 if hf is None else None))  # same sizing, another strategy
        seen = set()

        def sib_probe(key):
            p = f.check(key)
            ctx.check(p or key not in seen, "a key that was added to this filter earlier is reported absent right after a sibling filter (another hash strategy) handled the same key", key=key)
            return p

        counts = [0]
        calls = 0
        effective = 0
        pushes = 0
        dup_adds = forced = reloads = 0
        for step in range(rng.randint(5, 70)):
            bl.noise_reads(ctx, rng, f, keys)
            r = rng.random()
            if r < 0.78:
                # aim at the boundary: re-add known keys often, force sometimes
                key = rng.choice(keys)
                force = rng.random() < 0.2
                if force and rng.random() < 0.3:
                    force = 1  # a truthy flag that is not the object True (the result of `flags & 1`, a numpy bool, ...)
                elif not force and rng.random() < 0.3:
                    force = rng.choice([0, None])  # ... and a falsy one that is not the object False: not forced
                    ctx.count("adds_with_a_falsy_flag_that_is_not_False")
                if sib is not None and rng.random() < 0.4:
                    # a SIBLING filter (same sizing, another hash strategy) is asked about - or given - the same key right before
                    (sib.check(key), key in sib) if rng.random() < 0.6 else sib.add(key)
                    ctx.count("calls_on_a_sibling_with_another_strategy_right_before")
                    present = sib_probe(key)
                else:
                    present = f.check(key)
                eff = force or not present
                _, _, bits_before = stream_state(f) if (present and not force) else (None, None, None)
                if rng.random() < 0.85:
                    case.op("add", key, force)
                    f.add(key, force=force) if rng.random() < 0.5 else (f.add(key, force) if force else f.add(key))
                else:
                    case.op("add_alt", key, force)
                    arg, cp = bl.alt_arg(ctx, (hf or _default())(key, mk[1] + rng.choice([0, 0, 1, 4])))
                    f.add_alt(arg, force)
                    bl.arg_unchanged(ctx, arg, cp, "add_alt")
                calls += 1
                seen.add(key)
                if eff:
                    if counts[-1] >= est:
                        counts.append(0)
                    counts[-1] += 1
                    effective += 1
                    if force and present:
                        forced += 1
                        ctx.count("forced_duplicate_adds")
                else:
                    dup_adds += 1
                    ctx.count("suppressed_duplicate_adds")
                    _, _, bits_after = stream_state(f)
                    ctx.check(bits_after == bits_before, f"a non-forced add of a key reported present changed a sub-filter at step {step}", key=key)
                ctx.check(f.check(key), f"key absent right after its add at step {step}", key=key)
                ctx.count("op.add")
            elif r < 0.8 and counts[-1] < est and mk[1] >= 2:
                # a REFUSED addition (hash list too short -> the insert raises): nothing was inserted, so the per-filter counts and the growth
                # schedule are unchanged (only done while the newest filter has room: at the boundary the growth check precedes the failing insert)
                key = rng.choice(keys)
                case.op("refused add_alt", key)
                try:
                    f.add_alt((hf or _default())(key, mk[1])[: rng.randint(1, mk[1] - 1)], rng.random() < 0.5)
                    raised = False
                except Exception:
                    raised = True
                if raised:
                    ctx.count("refused_additions")
                    calls = f.elements_added if f.elements_added in (calls, calls + 1) else calls  # whether a refused call counts as an add call is not fixed
                else:
                    continue
            elif r < 0.86 and use_push:
                case.op("push")
                f.push()
                counts.append(0)
                pushes += 1
                ctx.count("op.push")
            elif r < 0.93:
                chan = rng.choice(["bytes", "path", "fileobj"])
                case.op("reload", chan)
                data = bl.export_bytes_via(f, chan, sc)
                if chan == "path":
                    p2 = sc.path("load")
                    with open(p2, "wb") as fh:
                        fh.write(data)
                    f = P.ExpandingBloomFilter(filepath=p2, **bl.kw_hash(hf), **({"est_elements": rng.randint(1, 500), "false_positive_rate": rng.choice([0.3, 0.05, 0.011, 0.001])} if rng.random() < 0.3 else {}))
                else:
                    f = P.ExpandingBloomFilter.frombytes(data, **bl.kw_hash(hf))
                reloads += 1
                ctx.count("op.reload")
            else:
                case.op("query")
                f.check(rng.choice(keys))
            # ---- oracle after every call
            where = f"after step {step} ({case.ops[-1][0]})"
            st, got_counts, _ = stream_state(f)
            ctx.count("stream_parses")
            ctx.check(got_counts == counts, f"per-filter insertion counts differ from the FIFO growth model {where}", got=got_counts, want=counts, est=est)
            ctx.check(all(c <= est for c in got_counts), f"a sub-filter received more than est_elements insertions {where}", got=got_counts, est=est)
            ctx.check(f.expansions == len(counts) - 1 and st["n"] == len(counts), f"expansions differs from the model {where}", got=f.expansions, want=len(counts) - 1)
            ctx.check(f.elements_added == calls and st["added"] == calls, f"elements_added is not the number of add calls {where}", got=f.elements_added, footer=st["added"], want=calls)
            ctx.check(st["est"] == est and f.estimated_elements == est, f"estimated_elements changed {where}", got=st["est"])
            if pushes == 0:
                want = max(0, math.ceil(effective / est) - 1)
                ctx.check(f.expansions == want, f"expansions is not max(0, ceil(I/est)-1) for I={effective} effective insertions {where}", got=f.expansions, want=want)
                ctx.count("closed_form_checks")
        ctx.maximum("max_expansions", len(counts) - 1)
        if len(counts) > 1:
            ctx.count("cases_with_growth")
        case.nontrivial = len(counts) > 1 and (dup_adds + forced + reloads) >= 1
    finally:
        sc.cleanup()


def _default():
    from probables.hashes import default_fnv_1a

    return default_fnv_1a


def wl_boundary(ctx, rng, case):
    """exactly est, est+1, 2*est, 2*est+1 ... distinct insertions; forced duplicates exactly when the newest filter is full"""
    import probables as P

    est = [1, 2, 3, 4, 5, 6, 7, 10, 25][case.index % 9]
    rate = [0.05, 0.01, 0.2, 0.001][(case.index // 9) % 4]
    mode = ["distinct", "forced_dup_when_full", "dup_when_full", "reload_when_full"][(case.index // 36) % 4]
    case.desc = {"est": est, "rate": rate, "mode": mode}
    f = P.ExpandingBloomFilter(est_elements=est, false_positive_rate=rate)
    counts = [0]
    calls = 0
    i = 0
    while len(counts) <= 4 and i < 400:
        key = f"b{i}"
        i += 1
        present = f.check(key)
        f.add(key)
        calls += 1
        if not present:
            if counts[-1] >= est:
                counts.append(0)
            counts[-1] += 1
        if counts[-1] == est:
            if mode == "forced_dup_when_full":
                k2 = key
                f.add(k2, force=True)
                calls += 1
                counts.append(0)
                counts[-1] += 1
                case.op("forced-dup-at-full", k2)
            elif mode == "dup_when_full":
                f.add(key)
                calls += 1
                case.op("dup-at-full", key)
            elif mode == "reload_when_full":
                f = P.ExpandingBloomFilter.frombytes(bytes(f))
                case.op("reload-at-full")
        st, got, _ = stream_state(f)
        ctx.count("stream_parses")
        ctx.check(got == counts, f"per-filter counts differ from the model after {calls} adds (mode {mode})", got=got, want=counts, est=est)
        ctx.check(f.elements_added == calls, "elements_added is not the number of add calls", got=f.elements_added, want=calls)
        ctx.check(f.expansions == len(counts) - 1, "expansions differs from the model", got=f.expansions, want=len(counts) - 1)
    ctx.count("cases_with_growth")
    case.nontrivial = True


GEO_EST = [1, 2, 3, 5, 8, 10, 16, 25, 50, 100, 250, 500, 1000, 2000]
GEO_RATE = [0.7, 0.6, 0.5, 0.4, 0.35, 0.3, 0.2, 0.1, 0.05, 0.01, 0.001, 1e-5]


def wl_geometry(ctx, rng, case):
    """the whole range of sizings: for (est_elements, rate) over a grid up to 2000 elements and rates 1e-5..0.7 (then random ones), insert distinct keys
    across the est-th, est+1-th, 2*est-th and 2*est+1-th effective insertion; the closed form is checked after EVERY add, the stream at the boundaries"""
    import probables as P

    grid = [(e, r) for e in GEO_EST for r in GEO_RATE]
    if case.index < len(grid):
        est, rate = grid[case.index]
    else:
        est, rate = rng.choice([rng.randint(1, 60), rng.randint(60, 1500)]), rng.choice([rng.uniform(0.001, 0.7), 10 ** -rng.uniform(0.2, 6)])
    mk = refimpl.bloom_sizing_simple(est, rate)
    case.desc = {"est": est, "rate": rate, "kind": "geometry sweep"}
    if mk is None or mk[1] < 1:
        case.desc["skipped"] = "not a valid / unambiguous sizing"
        return
    hname, hf = gen.pick_hash(rng, [], kind=rng.choice(["library_default", "default_fnv_1a", "default_md5", "default_sha256"]))
    f = P.ExpandingBloomFilter(est_elements=est, false_positive_rate=rate, **bl.kw_hash(hf))
    effective = calls = 0
    i = 0
    target = 2 * est + 2 if est > 50 else 6 * est + 2  # small sizings: across six growths
    boundaries = {est - 1, est, est + 1, 2 * est, 2 * est + 1, 5 * est, 5 * est + 1, 6 * est}
    reload_at = rng.randint(1, target - 1) if rng.random() < 0.5 else None  # half of the cases go on with a loaded copy from some point on
    while effective < target and i < 3 * target + 50:
        if reload_at is not None and effective == reload_at:
            f = P.ExpandingBloomFilter.frombytes(bytes(f), **bl.kw_hash(hf))
            reload_at = None
            case.op("reload", effective)
            ctx.count("sweep_reloads")
            ctx.maximum("sweep_reload_with_most_insertions_in_the_newest_filter", effective % est)
        key = f"geo-{case.index}-{i}"
        i += 1
        present = f.check(key)
        f.add(key)
        calls += 1
        if not present:
            effective += 1
        want = max(0, math.ceil(effective / est) - 1)
        ctx.counters["oracle_evaluations"] += 1
        if f.expansions != want:
            ctx.fail(f"expansions is not max(0, ceil(I/est)-1) after I={effective} effective insertions (est_elements={est}, rate={rate})", got=f.expansions, want=want,
                     bits=mk[0], hashes=mk[1])
        if effective in boundaries and not present:
            st, counts, _ = stream_state(f)
            ctx.count("stream_parses")
            ctx.check(all(c <= est for c in counts), f"a sub-filter received more than est_elements insertions (est={est}, rate={rate})", got=counts)
            ctx.check(sum(counts) == effective and f.elements_added == calls, "insertion counts inconsistent", counts=counts, effective=effective, calls=calls)
    ctx.count("closed_form_checks", calls)
    ctx.count("geometry_sweep_cases")
    ctx.observe("geometry_est", est, cap=2000)
    ctx.count("cases_with_growth")
    case.op("insertions", calls, "effective", effective)
    case.nontrivial = True


def wl_est_sweep(ctx, rng, case):
    """EVERY est_elements from 1 upwards (one case each, not a grid): distinct keys across the est-th, est+1-th and 2*est+1-th effective
    insertion, closed form after every add, per-filter counts from the stream at the boundaries"""
    import probables as P

    est = case.index + 1
    rate = rng.choice([0.3, 0.1, 0.05, 0.01])
    case.desc = {"est": est, "rate": rate, "kind": "every est_elements"}
    if refimpl.bloom_sizing_simple(est, rate) is None:
        return
    f = P.ExpandingBloomFilter(est_elements=est, false_positive_rate=rate)
    forced = case.index % 2 == 1
    effective = calls = i = 0
    target = 2 * est + 2
    # a third of the cases place ONE explicit push when the newest filter is nearly or exactly full (0, 1 or 2 insertions short); the
    # FIFO model then replaces the closed form: a push appends an empty filter, an effective add grows first when the newest one is full
    push_short = (case.index // 3) % 3 if case.index % 3 == 2 and est >= 2 else None
    model = [0]
    pushed = False
    # half of the cases are carried on by a LOADED copy from some point on (anywhere in the first two filters' lives: also when the newest
    # filter already holds hundreds of insertions)
    reload_at = rng.randint(1, target - 1) if rng.random() < 0.5 else None
    while effective < target + (est if push_short is not None else 0) and i < 4 * target + 50:
        if reload_at is not None and effective == reload_at:
            f = P.ExpandingBloomFilter.frombytes(bytes(f))
            reload_at = None
            case.op("reload", effective)
            ctx.count("sweep_reloads")
            ctx.maximum("sweep_reload_with_most_insertions_in_the_newest_filter", model[-1])
        if push_short is not None and not pushed and len(model) == 2 and model[-1] == max(1, est - push_short):
            f.push()
            model.append(0)
            pushed = True
            case.op("push", list(model))
            ctx.count("sweep_pushes_near_a_full_filter")
        key = f"sweep-{est}-{i}"
        i += 1
        present = (not forced) and f.check(key)
        f.add(key, force=True) if forced else f.add(key)
        calls += 1
        if not present:
            effective += 1
            if model[-1] >= est:
                model.append(0)
            model[-1] += 1
        want = len(model) - 1
        ctx.counters["oracle_evaluations"] += 1
        if f.expansions != want:
            ctx.fail(f"expansions differs from the growth model (max(0, ceil(I/est)-1) without pushes) after I={effective} effective insertions (est_elements={est}, rate={rate})", got=f.expansions, want=want, model=model)
        if (effective in (est, est + 1, 2 * est, 2 * est + 1, 3 * est, 3 * est + 1) or effective >= target) and not present:
            st, counts, _ = stream_state(f)
            ctx.count("stream_parses")
            ctx.check(all(c <= est for c in counts), f"a sub-filter received more than est_elements insertions (est={est}, rate={rate})", got=counts)
            ctx.check(counts == model, f"per-filter insertion counts differ from the growth model (est={est})", got=counts, want=model)
            ctx.check(sum(counts) == effective and f.elements_added == calls, "insertion counts inconsistent", counts=counts, effective=effective, calls=calls)
    ctx.count("closed_form_checks", calls)
    ctx.count("est_sweep_cases")
    ctx.maximum("est_sweep_max_est_elements", est)
    case.nontrivial = True


PROP = Prop(
    "C09",
    "exploration",
    rule=("history: random sequences of add (new / duplicate / forced) / add_alt / push / reload / query on expanding filters with est_elements in "
          "{1,2,3,4,5,6,25}, 8 rates, 9 hash strategies (incl. colliding hand-written ones that produce false positives); geometry: a grid of est_elements 1..2000 x rates 1e-5..0.7 (then random sizings) with distinct keys across the est-th / est+1-th / 2est-th / 2est+1-th "
          "effective insertion, closed form checked after every add; boundary: deterministic "
          "walks across the est-th and est+1-th insertion with a forced duplicate, a plain duplicate or a reload placed exactly when the newest filter "
          "is full. Non-trivial = the filter grew at least once and the history contained a duplicate, a forced add or a reload; distinct by hash of (parameters, operations)."),
    workloads=[
        Workload("boundary", wl_boundary, quick=144, thorough=144),
        Workload("geometry", wl_geometry, quick=len(GEO_EST) * len(GEO_RATE), thorough=len(GEO_EST) * len(GEO_RATE) + 3000),
        Workload("history", wl_history, quick=1200, thorough=300000),
        Workload("est_sweep", wl_est_sweep, quick=400, thorough=2500),
    ],
    assumptions=["an add is 'effective' iff force or the filter's own check() was false just before the call (decided by the harness before the call)",
                 "per-filter counts are read from the exported stream with an independent parser"],
    required=["stream_parses", "cases_with_growth", "suppressed_duplicate_adds", "forced_duplicate_adds", "op.reload", "closed_form_checks", "geometry_sweep_cases", "refused_additions"],
)
