"""C19 - queries never change a structure; clear() returns it to its initial state.

Monitor shape: observable-state snapshot before / after a batch of read-only calls (present and absent keys), and after
clear() a comparison with a freshly constructed object, followed by the SAME further history on both (hidden state that survives
clear() shows up as a divergence).
"""
import io
import os
import random as _stdrandom
from collections import Counter

from .. import bl, ck, gen
from ..core import Prop, Workload


def file_bytes(path):
    with open(path, "rb") as fh:
        return fh.read()


# ------------------------------------------------------------------------------- observable states

def state_bloom(f, path=None):
    s = {"elements_added": f.elements_added, "cells": bl.cells_of(f),
         "geometry": (f.number_bits, f.number_hashes, f.estimated_elements, f.false_positive_rate, f.bloom_length),
         "bytes": bytes(f), "hex": f.export_hex(),
         # what the statistics and the string form report is observable too (a memo that survives clear() shows here)
         "estimate_elements()": f.estimate_elements(), "current_false_positive_rate()": f.current_false_positive_rate(),
         "str": str(f).replace("is on disk: yes", "is on disk: ?").replace("is on disk: no", "is on disk: ?")}
    if path is not None:
        s["backing_file"] = file_bytes(path)
    return s


def state_expanding(f):
    # (the cheap accessors are read BEFORE the export: an export that changes the structure must not get to prepare its own "before")
    s = {"elements_added": f.elements_added, "expansions": f.expansions}
    if hasattr(f, "current_queue_size"):
        s["queue"] = (f.current_queue_size, f.max_queue_size)
    s["bytes"] = bytes(f)
    return s


def state_sketch(f):
    s = {"elements_added": f.elements_added, "query_type": f.query_type, "geometry": (f.width, f.depth)}
    if hasattr(f, "heavy_hitters"):
        s["heavy_hitters"] = dict(f.heavy_hitters)
    if hasattr(f, "meets_threshold"):
        s["meets_threshold"] = dict(f.meets_threshold)
    s["bytes"] = bytes(f)
    return s


def state_cuckoo(f, counting):
    tab = [[(b.finger, b.count) for b in bucket] for bucket in f.buckets] if counting else [[int(x) for x in bucket] for bucket in f.buckets]
    s = {"buckets": tab, "elements_added": f.elements_added, "capacity": f.capacity, "geometry": (f.bucket_size, f.max_swaps, f.fingerprint_size_bits), "bytes": bytes(f)}
    if counting:
        s["unique_elements"] = f.unique_elements
    return s


def state_qf(f):
    out = io.StringIO()
    f.print(file=out)
    return {"hashes": f.get_hashes(), "elements_added": f.elements_added, "quotient": f.quotient, "metadata": out.getvalue(), "load_factor": f.load_factor,
            "settings": (f.auto_expand, f.max_load_factor, f.size, f.remainder, f.bits_per_elm)}


def same(ctx, before, after, what):
    for k in before:
        ctx.counters["oracle_evaluations"] += 1
        if before[k] != after.get(k):
            ctx.fail(f"{what}: observable state component `{k}` changed", before=before[k] if k != "bytes" else len(before[k]), after=after.get(k) if k != "bytes" else len(after.get(k, b"")))


# ------------------------------------------------------------------------------- Bloom family

def reads_bloom(rng, f, keys, other, sc, hf, counting):
    """a batch of read-only calls; returns their names"""
    done = []
    for _ in range(rng.randint(6, 16)):
        k = rng.choice(keys + ["absent-key", b"absent-bytes", ""])
        c = rng.choice(["check", "in", "check_alt", "hashes", "hashes_depth", "str", "estimate", "cfpr", "export_size", "hex", "bytes", "export_path", "export_obj", "export_refused",
                        "c_header", "props", "jaccard", "union", "intersection", "as_argument"])
        done.append(c)
        if c == "check":
            f.check(k)
        elif c == "in":
            k in f
        elif c == "check_alt":
            f.check_alt(f.hashes(k))
        elif c == "hashes":
            f.hashes(k)
        elif c == "hashes_depth":
            f.hashes(k, rng.randint(1, 9))
        elif c == "str":
            str(f)
        elif c == "estimate":
            f.estimate_elements()
        elif c == "cfpr":
            f.current_false_positive_rate()
        elif c == "export_size":
            f.export_size()
        elif c == "hex":
            f.export_hex()
        elif c == "bytes":
            bytes(f)
        elif c == "export_path":
            f.export(sc.path("ro"))
        elif c == "export_obj":
            if not f.is_on_disk:
                f.export(io.BytesIO())
        elif c == "export_refused":
            if not f.is_on_disk:
                done[-1] = "export refused: " + bl.refused_export(sc.ctx, rng, f, sc)
        elif c == "c_header":
            if f.elements_added >= 0:
                f.export_c_header(sc.path("hdr"))
        elif c == "props":
            (f.false_positive_rate, f.estimated_elements, f.number_hashes, f.number_bits, f.elements_added, f.is_on_disk, f.bloom_length, f.bloom, f.hash_function)
        elif c == "jaccard":
            f.jaccard_index(other)
        elif c == "union":
            f.union(other)
        elif c == "intersection":
            f.intersection(other)
        elif c == "as_argument":
            getattr(other, rng.choice(["union", "intersection", "jaccard_index"]))(f)
    return done


def wl_unexportable(ctx, rng, case):
    """the one reachable Bloom state that cannot be exported: the union / intersection of completely set filters carries the documented
    sentinel -1 as element count.  Every read-only call - including the exports, which are REFUSED in that state - must leave cells and
    counters exactly as they were."""
    import probables as P

    counting = case.index % 2 == 1
    cls = P.CountingBloomFilter if counting else P.BloomFilter
    est, rate = rng.choice([(1, 0.5), (1, 0.3), (2, 0.4), (1, 0.1)])
    a, b = cls(est, rate), cls(est, rate)
    i = 0
    while (min(bl.cells_of(a)) == 0 if counting else any(x != 0xFF for x in bl.bits_of(a)[:-1]) or bin(bl.bits_of(a)[-1]).count("1") < (a.number_bits - 1) % 8 + 1) and i < 4000:
        a.add(f"fill-{i}")
        b.add(f"fill-{i}")
        i += 1
    u = a.union(b) if rng.random() < 0.5 else a.intersection(b)
    case.desc = {"cls": cls.__name__, "est": est, "rate": rate, "bits": a.number_bits, "kind": "completely set filters"}
    if u is None or u.elements_added >= 0:
        return
    ctx.count("states_with_the_sentinel_element_count")
    sc = bl.Scratch(ctx, case)
    try:
        def st(o):
            return {"cells": bl.cells_of(o), "elements_added": o.elements_added, "geometry": (o.number_bits, o.number_hashes, o.estimated_elements, o.false_positive_rate)}

        before, before_a = st(u), st(a)
        done = []
        for name, call in (("bytes", lambda: bytes(u)), ("export(path)", lambda: u.export(sc.path("x"))), ("export(file object)", lambda: u.export(io.BytesIO())),
                           ("export_hex", lambda: u.export_hex()), ("export_c_header", lambda: u.export_c_header(sc.path("h"))), ("str", lambda: str(u)),
                           ("check", lambda: u.check("fill-0")), ("estimate_elements", lambda: u.estimate_elements()), ("current_false_positive_rate", lambda: u.current_false_positive_rate()),
                           ("union as argument", lambda: a.union(u)), ("jaccard_index", lambda: u.jaccard_index(a))):
            try:
                call()
                done.append(name)
            except Exception as e:
                done.append(f"{name}: refused ({type(e).__name__})")
            same(ctx, before, st(u), f"{cls.__name__} with element count {before['elements_added']} after the read-only call {done[-1]}")
        same(ctx, before_a, st(a), "the operand of the set operation")
        case.op("reads", done)
        ctx.count("read_batches")
        ctx.count("read_only_calls", len(done))
        case.nontrivial = True
    finally:
        sc.cleanup()


def wl_bloom(ctx, rng, case):
    import probables as P

    counting = rng.random() < 0.35
    on_disk = (not counting) and rng.random() < 0.35
    est, rate, m, k = gen.bloom_geometry(rng, max_bits=3000 if counting else 20000)
    keys = gen.universe(rng, rng.randint(2, 14))
    if case.index % 20 == 7:
        # arrays whose length is an exact multiple of 512 / 1024 / 4096 elements (whatever block size a bulk operation might use)
        est, rate, m, k = rng.choice(gen.block_aligned_geometries(counting))
        keys = gen.universe(rng, rng.randint(10, 24))
        ctx.count("block_aligned_arrays")
        ctx.observe("block_aligned_lengths", m if counting else (m + 7) // 8, cap=200)
    hname, hf = gen.pick_hash(rng, keys)
    cls = P.CountingBloomFilter if counting else P.BloomFilter
    case.desc = {"cls": "BloomFilterOnDisk" if on_disk else cls.__name__, "est": est, "rate": rate, "hash": hname}
    ctx.observe("structures", case.desc["cls"])
    sc = bl.Scratch(ctx, case)
    f = fresh = None
    try:
        seed_b = rng.getrandbits(32)
        f0, d = bl.reachable_bloom(P, _stdrandom.Random(seed_b), est, rate, hf, keys, counting=counting, amounts=(1, 2, 9))
        # (in memory) a TWIN with the same history that nobody reads until the very end
        twin = None if on_disk else bl.reachable_bloom(P, _stdrandom.Random(seed_b), est, rate, hf, keys, counting=counting, amounts=(1, 2, 9))[0]
        case.op("state", d)
        path = None
        if on_disk:
            if f0.elements_added < 0:
                return
            path = sc.path("disk")
            f0.export(path)
            f = P.BloomFilterOnDisk(path, **bl.kw_hash(hf))
        else:
            f = f0
        # the state under test also includes calls made on THIS object (an on-disk filter that was added to after opening) and
        # states a refused call leaves behind (add_alt with too few / non-integer hashes raises part-way)
        tail = []
        for _ in range(rng.choice([0, 0, 1, 2, 3])):
            r, kk = rng.random(), rng.choice(keys)
            try:
                if r < 0.45:
                    n_t = rng.randint(1, 3)
                    f.add(kk, n_t) if counting else f.add(kk)
                    if twin is not None:
                        twin.add(kk, n_t) if counting else twin.add(kk)
                    tail.append("add")
                elif twin is not None:
                    continue  # (histories with a twin keep to calls that either happen completely or not at all)
                elif r < 0.8:
                    f.add_alt(f.hashes(kk)[: rng.randint(0, max(0, f.number_hashes - 1))])
                    tail.append("add_alt(short) accepted")
                else:
                    f.add_alt(f.hashes(kk)[:-1] + ["x"])
                    tail.append("add_alt(non-int) accepted")
            except Exception as e:
                tail.append(f"refused:{type(e).__name__}")
                ctx.count("states_after_a_refused_call")
        if tail:
            case.op("tail", tail)
        other, _ = bl.reachable_bloom(P, rng, est, rate, hf, keys, counting=counting)
        other_before = state_bloom(other)
        before = state_bloom(f, path)
        done = reads_bloom(rng, f, keys, other, sc, hf, counting)
        for k in keys + ["absent-key", b"absent-bytes"]:
            f.check(k)
            k in f
        done.append("check_all_keys")
        case.op("reads", done)
        same(ctx, before, state_bloom(f, path), f"{case.desc['cls']} after read-only calls {sorted(set(done))}")
        same(ctx, other_before, state_bloom(other), "the other operand of a set operation")
        ctx.count("read_batches")
        ctx.count("read_only_calls", len(done))
        if twin is not None and f.elements_added >= 0:
            # the filter that was read and its unread twin receive the same further additions and must end up in the same observable state
            for kk in rng.sample(keys, min(len(keys), 6)) + ["new-after-the-reads"]:
                (f.add(kk, 2), twin.add(kk, 2)) if counting else (f.add(kk), twin.add(kk))
            same(ctx, state_bloom(twin), state_bloom(f), f"{case.desc['cls']} that received read-only calls {sorted(set(done))} vs its unread twin, after the same further additions")
            ctx.count("twin_comparisons")
            before = state_bloom(f, path)
        # ---- the filter as both operands: the result is another object that owns its storage
        for name in ("union", "intersection"):
            r = getattr(f, name)(f)
            if r is not None and r.elements_added >= 0:
                r.add("only-in-the-result")
                same(ctx, before, state_bloom(f, path), f"{case.desc['cls']} after a.{name}(a) and an add on the RESULT")
                r.clear()
                same(ctx, before, state_bloom(f, path), f"{case.desc['cls']} after a.{name}(a) and a clear of the RESULT")
            del r
        # ---- results of set operations with ANOTHER filter (in either role) are changed afterwards: both operands keep their state
        for name in ("union", "intersection"):
            for recv, arg, tag in ((f, other, f"a.{name}(b)"), (other, f, f"b.{name}(a)")):
                r = getattr(recv, name)(arg)
                if r is not None and r.elements_added >= 0:
                    (r.add("only-in-the-result", 2) if counting else r.add("only-in-the-result"))
                    if counting and keys:
                        kk = rng.choice(keys)
                        if r.check(kk) > 0 and len(set(h % r.number_bits for h in r.hashes(kk))) == r.number_hashes:
                            r.remove(kk, r.check(kk))
                    same(ctx, before, state_bloom(f, path), f"{case.desc['cls']} after {tag} and changes to the RESULT")
                    same(ctx, other_before, state_bloom(other), f"the other operand after {tag} and changes to the RESULT")
                    r.clear()
                    same(ctx, before, state_bloom(f, path), f"{case.desc['cls']} after {tag} and a clear of the RESULT")
                    same(ctx, other_before, state_bloom(other), f"the other operand after {tag} and a clear of the RESULT")
                    ctx.count("results_changed_operands_compared")
                del r
        import gc

        gc.collect()
        same(ctx, before, state_bloom(f, path), f"{case.desc['cls']} after the results of a.union(a) / a.intersection(a) were dropped")
        ctx.count("self_operand_checks")
        # ---- clear() vs fresh
        f.clear()
        case.op("clear")
        if on_disk:
            p2 = sc.path("fresh")
            fresh = P.BloomFilterOnDisk(p2, est, rate, **bl.kw_hash(hf))
            a, b = state_bloom(f, path), state_bloom(fresh, p2)
        else:
            fresh = cls(est, rate, **bl.kw_hash(hf))
            a, b = state_bloom(f), state_bloom(fresh)
        same(ctx, b, a, f"{case.desc['cls']} after clear() vs a freshly constructed one")
        out = Counter()
        for step in range(rng.randint(2, 8)):
            kk = rng.choice(keys)
            if counting and out[kk] > 0 and rng.random() < 0.4:
                r1, r2 = f.remove(kk), fresh.remove(kk)  # legitimate removals only
                out[kk] -= 1
            elif counting:
                n = rng.randint(1, 4)
                r1, r2 = f.add(kk, n), fresh.add(kk, n)
                out[kk] += n
            else:
                r1, r2 = f.add(kk), fresh.add(kk)
            ctx.check(r1 == r2, "cleared and fresh filters return different values for the same call", r1=r1, r2=r2)
            same(ctx, state_bloom(fresh), state_bloom(f), f"{case.desc['cls']} cleared vs fresh after {step + 1} further calls")
        ctx.count("clear_comparisons")
        case.nontrivial = True
    finally:
        for o in (f, fresh):
            if o is not None and hasattr(o, "close"):
                try:
                    o.close()
                except Exception:
                    pass
        sc.cleanup()


def wl_expanding(ctx, rng, case):
    import probables as P

    rotating = rng.random() < 0.5
    est, rate = rng.choice([1, 2, 3, 5]), rng.choice([0.1, 0.05, 0.01])
    keys = gen.universe(rng, rng.randint(3, 16))
    hname, hf = gen.pick_hash(rng, keys)
    cls = P.RotatingBloomFilter if rotating else P.ExpandingBloomFilter
    extra = {"max_queue_size": rng.randint(1, 4)} if rotating else {}
    case.desc = {"cls": cls.__name__, "est": est, "rate": rate, "hash": hname}
    ctx.observe("structures", cls.__name__)
    sc = bl.Scratch(ctx, case)
    try:
        f = cls(est_elements=est, false_positive_rate=rate, **extra, **bl.kw_hash(hf))
        for _ in range(rng.randint(0, 20)):
            f.add(rng.choice(keys), force=rng.random() < 0.1) if rng.random() < 0.9 else f.push()
        for _ in range(rng.choice([0, 0, 0, 1, 2])):
            # states a refused call leaves behind (hash list too short / not integers: raises part-way)
            kk = rng.choice(keys)
            hs = list((hf or _dflt())(kk, 12))
            try:
                f.add_alt(hs[: rng.randint(0, 1)] if rng.random() < 0.6 else hs[:1] + ["x"] * 11, force=rng.random() < 0.5)
            except Exception:
                ctx.count("states_after_a_refused_call")
        if rng.random() < 0.4:
            if rotating and rng.random() < 0.5:
                # ... with ANOTHER queue limit than the one it was written with (a smaller one: the loaded queue is then longer than the
                # limit - the library does not trim it, and nothing that only reads may)
                extra = {"max_queue_size": rng.randint(1, extra["max_queue_size"])}
                ctx.count("rotating_states_reloaded_with_another_queue_limit")
            f = cls.frombytes(bytes(f), **extra, **bl.kw_hash(hf))
            case.op("state-reloaded")
            ctx.count("reloaded_states")
        before = state_expanding(f)
        done = []
        for _ in range(rng.randint(5, 14)):
            k = rng.choice(keys + ["absent", b"nope"])
            c = rng.choice(["check", "in", "check_alt", "bytes", "export_path", "export_obj", "export_refused", "props"])
            done.append(c)
            if c == "check":
                f.check(k)
            elif c == "in":
                k in f
            elif c == "check_alt":
                f.check_alt((hf or _dflt())(k, 3 + 8))
            elif c == "bytes":
                bytes(f)
            elif c == "export_path":
                f.export(sc.path("ro"))
            elif c == "export_obj":
                f.export(io.BytesIO())
            elif c == "export_refused":
                done[-1] = "export refused: " + bl.refused_export(ctx, rng, f, sc)
            else:
                (f.expansions, f.false_positive_rate, f.estimated_elements, f.elements_added, f.hash_function)
        for k in keys + ["absent"]:
            f.check(k)
            k in f
        done.append("check_all_keys")
        case.op("reads", done)
        same(ctx, before, state_expanding(f), f"{cls.__name__} after read-only calls {sorted(set(done))}")
        ctx.count("read_batches")
        ctx.count("read_only_calls", len(done))
        case.nontrivial = True
    finally:
        sc.cleanup()


def _dflt():
    from probables.hashes import default_fnv_1a

    return default_fnv_1a


# ------------------------------------------------------------------------------- sketches

def wl_sketch(ctx, rng, case):
    import probables as P

    cls_name = rng.choice(["CountMinSketch", "CountMeanSketch", "CountMeanMinSketch", "HeavyHitters", "StreamThreshold"])
    cls = getattr(P, cls_name)
    keys = [k for k in gen.universe(rng, rng.randint(3, 10), kinds=("str",))]
    if rng.random() < 0.4:
        # keys given as bytes (some of them the byte spelling of a text key of the universe: two keys for the tables, one for the counters)
        keys = keys + [gen.to_bytes(k) for k in rng.sample(keys, min(len(keys), 3))] + [b"\xff\xfe raw"]
        ctx.count("sketch_universes_with_bytes_keys")
    hname, hf = gen.pick_hash(rng, keys)
    w, d = rng.choice([2, 3, 5, 50]), rng.randint(1, 4)
    extra = {"num_hitters": rng.randint(1, 3)} if cls_name == "HeavyHitters" else ({"threshold": rng.randint(1, 5)} if cls_name == "StreamThreshold" else {})
    case.desc = {"cls": cls_name, "width": w, "depth": d, "hash": hname, "extra": extra}
    ctx.observe("structures", cls_name)
    sc = bl.Scratch(ctx, case)
    try:
        mk = lambda: cls(width=w, depth=d, **extra, **bl.kw_hash(hf))
        seed_b = rng.getrandbits(32)

        def build(r, log):
            """the state under test, built from a private random stream: called twice, it gives two sketches with the same history"""
            f = mk()
            huge = not extra and r.random() < 0.15  # counters around -2^30 / 2^30: two of them together pass a 32-bit limit
            for _ in range(r.randint(0, 16)):
                k = r.choice(keys)
                if huge and r.random() < 0.5:
                    n = 2**30 + r.randint(0, 20)
                    (f.remove if r.random() < 0.6 else f.add)(k, n)
                    log("huge", k, n)
                    continue
                if cls_name != "HeavyHitters" and r.random() < 0.35:
                    n = r.randint(1, 5)
                    f.remove(k, n)  # any removal the API accepts (also of keys never added): reachable states
                    log("remove", k, n)
                else:
                    n = r.randint(1, 5)
                    f.add(k, n)
                    log("add", k, n)
            for _ in range(r.choice([0, 0, 0, 1, 2])):
                # states a refused call leaves behind: too few hashes for the depth, an unsupported operation of the subclass
                kk = r.choice(keys)
                try:
                    q = r.random()
                    if q < 0.4:
                        f.add_alt(*(([kk] if extra else []) + [f.hashes(kk)[: r.randint(0, max(0, d - 1))], r.randint(1, 3)]))
                    elif q < 0.7 and cls_name != "HeavyHitters":
                        f.remove_alt(*(([kk] if extra else []) + [f.hashes(kk)[: r.randint(0, max(0, d - 1))], 1]))
                    elif q < 0.85:
                        f.join(mk()) if extra else f.join(P.CountMinSketch(width=w + 1, depth=d, **bl.kw_hash(hf)))
                    else:
                        f.remove(kk) if cls_name == "HeavyHitters" else f.add_alt(*(([kk] if extra else []) + [["x"] * d, 1]))
                except Exception:
                    ctx.count("states_after_a_refused_call")
            if f.elements_added == 0 and any(c != 0 for c in bytes(f)[:-16]):
                ctx.count("states_with_zero_total_but_nonzero_cells")
            if r.random() < 0.3 and cls_name not in ("HeavyHitters", "StreamThreshold"):
                f = cls.frombytes(bytes(f), **bl.kw_hash(hf)) if r.random() < 0.5 else cls.frombytes(bytearray(bytes(f)), **bl.kw_hash(hf))
                log("state-reloaded")
                ctx.count("reloaded_states")
            return f

        f = build(_stdrandom.Random(seed_b), case.op)
        twin = build(_stdrandom.Random(seed_b), lambda *a: None)  # never read, never exported until the very end
        third = build(_stdrandom.Random(seed_b), lambda *a: None)  # the same state once more, kept for the clear() comparison below
        before = state_sketch(f)
        g = P.CountMinSketch(width=w, depth=d, **bl.kw_hash(hf))
        g.add(keys[0], 2)
        done = []
        for _ in range(rng.randint(5, 14)):
            k = rng.choice(keys + ["absent", "other"])
            c = rng.choice(["check", "in", "check_alt", "hashes", "str", "bytes", "export_path", "export_obj", "export_refused", "props", "join_as_argument", "tables"])
            done.append(c)
            if c == "check":
                f.check(k)
            elif c == "in":
                k in f
            elif c == "check_alt":
                f.check_alt(f.hashes(k))
            elif c == "hashes":
                f.hashes(k, rng.randint(1, 6))
            elif c == "str":
                str(f)
            elif c == "bytes":
                bytes(f)
            elif c == "export_path":
                f.export(sc.path("ro"))
            elif c == "export_obj":
                f.export(io.BytesIO())
            elif c == "export_refused":
                done[-1] = "export refused: " + bl.refused_export(ctx, rng, f, sc)
            elif c == "props":
                (f.width, f.depth, f.confidence, f.error_rate, f.elements_added, f.query_type)
            elif c == "join_as_argument":
                recv = P.CountMinSketch(width=w, depth=d, **bl.kw_hash(hf))
                if rng.random() < 0.5:
                    # the receiver holds counters around -2^30 / 2^30 for the same keys: sums may pass a limit and be pinned - in the receiver
                    for kx in rng.sample(keys, min(3, len(keys))):
                        (recv.remove if rng.random() < 0.6 else recv.add)(kx, 2**30 + rng.randint(0, 20))
                recv.join(f)
            elif c == "tables":
                (getattr(f, "heavy_hitters", None), getattr(f, "meets_threshold", None), getattr(f, "number_heavy_hitters", None), getattr(f, "threshold", None))
        for k in keys + ["absent"]:
            f.check(k)
            k in f
        done.append("check_all_keys")
        case.op("reads", done)
        same(ctx, before, state_sketch(f), f"{cls_name} after read-only calls {sorted(set(done))}")
        ctx.count("read_batches")
        ctx.count("read_only_calls", len(done))
        # ---- the TWIN (same history, but nobody has looked at it) and the sketch that was read now receive the same further updates: a
        # read that re-arranged something the accessors do not show would make the two diverge
        later = [(k, 1, False) for k in rng.sample(keys, len(keys))]  # every key of the universe once more (tracked ones included), then a few random calls
        later += [(rng.choice(keys), rng.randint(1, 4), cls_name != "HeavyHitters" and rng.random() < 0.3) for _ in range(rng.randint(3, 10))]
        for step, (k, n, rem) in enumerate(later):
            if rem:
                r1, r2 = f.remove(k, n), twin.remove(k, n)
            else:
                r1, r2 = f.add(k, n), twin.add(k, n)
            ctx.check(r1 == r2, f"a {cls_name} that was read and its unread twin return different values for the same later call", r1=r1, r2=r2, step=step)
        same(ctx, state_sketch(twin), state_sketch(f), f"{cls_name} that received read-only calls {sorted(set(done))} vs its unread twin, after the same further updates")
        ctx.count("twin_comparisons")
        # ---- clear() vs fresh, then the same further history on both (cleared: the state as it was built - its total may well be 0 with
        # counters in use - in half of the cases, the sketch that was read and updated above in the others)
        if rng.random() < 0.5:
            f = third
        f.clear()
        fresh = mk()
        same(ctx, state_sketch(fresh), state_sketch(f), f"{cls_name} after clear() vs a freshly constructed one")
        for step in range(rng.randint(3, 12)):
            k = rng.choice(keys)
            n = rng.randint(1, 4)
            if cls_name != "HeavyHitters" and rng.random() < 0.3:
                r1, r2 = f.remove(k, n), fresh.remove(k, n)
            else:
                r1, r2 = f.add(k, n), fresh.add(k, n)
            ctx.check(r1 == r2, f"cleared and fresh {cls_name} return different values for the same call", r1=r1, r2=r2)
            same(ctx, state_sketch(fresh), state_sketch(f), f"{cls_name} cleared vs fresh after {step + 1} further calls")
        ctx.count("clear_comparisons")
        case.nontrivial = True
    finally:
        sc.cleanup()


# ------------------------------------------------------------------------------- cuckoo / quotient

def wl_cuckoo(ctx, rng, case):
    import probables as P
    from probables.exceptions import CuckooFilterFullError

    cfg = ck.gen_cfg(rng, small=rng.random() < 0.7, allow_rate=False)
    keys = ck.gen_keys(rng, cfg, rng.randint(3, 12))
    if len(keys) < 2:
        return
    case.desc = cfg.desc()
    ctx.observe("structures", case.desc["cls"])
    _stdrandom.seed(rng.getrandbits(32))
    f = cfg.make(P)
    for _ in range(rng.randint(0, 20)):
        try:
            (f.add if rng.random() < 0.8 else f.remove)(rng.choice(keys))
        except CuckooFilterFullError:
            pass
    sc = bl.Scratch(ctx, case)
    try:
        if rng.random() < 0.5:
            # a LOADED filter is a reachable state too (its buckets may be held in another container type than a built one)
            f = cfg.reload(P, f, rng.choice(["bytes", "path"]), sc)
            case.op("state-reloaded")
            ctx.count("reloaded_states")
        before = state_cuckoo(f, cfg.counting)
        done = []
        for _ in range(rng.randint(5, 14)):
            k = rng.choice(keys + ["absent", b"nope"])
            c = rng.choice(["check", "in", "str", "bytes", "export_path", "export_obj", "export_refused", "load_factor", "props"])
            done.append(c)
            if c == "check":
                f.check(k)
            elif c == "in":
                k in f
            elif c == "str":
                str(f)
            elif c == "bytes":
                bytes(f)
            elif c == "export_path":
                f.export(sc.path("ro"))
            elif c == "export_obj":
                f.export(io.BytesIO())
            elif c == "export_refused":
                done[-1] = "export refused: " + bl.refused_export(ctx, rng, f, sc)
            elif c == "load_factor":
                f.load_factor()
            else:
                (f.elements_added, f.capacity, f.max_swaps, f.bucket_size, f.buckets, f.expansion_rate, f.error_rate, f.auto_expand, f.fingerprint_size_bits, f.fingerprint_size)
        for k in keys + ["absent", b"nope"]:  # and a full sweep of look-ups over every key
            f.check(k)
            k in f
        done.append("check_all_keys")
        case.op("reads", done)
        same(ctx, before, state_cuckoo(f, cfg.counting), f"{case.desc['cls']} after read-only calls {sorted(set(done))}")
        ctx.count("read_batches")
        ctx.count("read_only_calls", len(done))
        case.nontrivial = True
    finally:
        sc.cleanup()


def wl_quotient(ctx, rng, case):
    import probables as P
    from probables.exceptions import QuotientFilterError

    from .c04 import build_universe

    q = rng.choice([3, 4, 5])
    U = build_universe(q, rng, per_quot=2)
    f = P.QuotientFilter(quotient=q, auto_expand=rng.random() < 0.5)
    case.desc = {"cls": "QuotientFilter", "quotient": q}
    ctx.observe("structures", "QuotientFilter")
    S = set()
    for _ in range(rng.randint(0, (1 << q) - 1)):
        h = rng.choice(U)
        try:
            f.add_alt(h)
            S.add(h)
        except QuotientFilterError:
            pass
    for h in rng.sample(sorted(S), min(len(S), rng.randint(0, 3))):
        f.remove_alt(h)
        S.discard(h)
    if rng.random() < 0.3:
        # filled to (or right up to) the LAST slot - possible when the filter may not grow on its own, or only at a load of 1 or beyond
        f.auto_expand, f.max_load_factor = rng.choice([(False, 0.85), (False, 0.85), (True, 1.0), (True, 1.5)])
        for h in rng.sample(U, len(U)):
            if f.elements_added >= f.size - rng.choice([0, 0, 0, 1]):
                break
            try:
                f.add_alt(h)
            except QuotientFilterError:
                break
        if f.elements_added == f.size:
            ctx.count("quotient.completely_full_tables")
    if rng.random() < 0.5:
        # the settings are public and writable: a state is also reachable in which they were changed AFTER the filling (growing switched on
        # for a full table, a load limit below the present load, ...)
        f.auto_expand = rng.random() < 0.6
        f.max_load_factor = rng.choice([0.05, 0.5, 0.85, 1.0, 1.5])
        if f.auto_expand and f.load_factor >= f.max_load_factor:
            ctx.count("quotient.states_whose_load_is_at_or_over_the_limit_with_growing_on")
    before = state_qf(f)
    other = P.QuotientFilter(quotient=q + 1, auto_expand=True)
    done = []
    for _ in range(rng.randint(5, 14)):
        h = rng.choice(U)
        c = rng.choice(["check_alt", "check", "in", "get_hashes", "hashes", "print", "validate", "props", "merge_source", "hashes_partial", "merge_source_refused",
                        "merge_source_into_a_small_growing_filter"])
        done.append(c)
        if c == "check_alt":
            f.check_alt(h)
        elif c == "check":
            f.check("some key")
        elif c == "in":
            "another key" in f
        elif c == "get_hashes":
            f.get_hashes()
        elif c == "hashes":
            list(f.hashes())
        elif c == "hashes_partial":
            # the walk over the stored hashes is abandoned early (next(), any(), a break): still only a look
            it = f.hashes()
            for _ in range(rng.randint(0, 2)):
                next(it, None)
            if rng.random() < 0.5:
                del it
            any(x == h for x in f.hashes())
        elif c == "merge_source_refused":
            # this filter as the source of a merge that is REFUSED part-way (a small receiver that may not grow)
            small = P.QuotientFilter(quotient=3, auto_expand=False)
            for x in U[:7]:
                try:
                    small.add_alt(x ^ 0x5A5A)
                except QuotientFilterError:
                    break
            try:
                small.merge(f)
            except QuotientFilterError:
                ctx.count("refused_merges_with_this_filter_as_source")
        elif c == "merge_source_into_a_small_growing_filter":
            # this filter as the source of a merge into a SMALLER filter that may grow and holds a few hashes of its own
            small = P.QuotientFilter(quotient=3, auto_expand=True)
            for x in rng.sample(U, rng.randint(1, 3)):
                small.add_alt(x ^ 0x3C3C)
            small.merge(f)
        elif c == "print":
            f.print(file=io.StringIO())
        elif c == "validate":
            f.validate_metadata()
        elif c == "props":
            (f.quotient, f.remainder, f.num_elements, f.elements_added, f.bits_per_elm, f.size, f.load_factor, f.auto_expand, f.max_load_factor)
        else:
            other.merge(f)
    for h in U:
        f.check_alt(h)
    done.append("check_all_hashes")
    case.op("reads", done)
    same(ctx, before, state_qf(f), f"QuotientFilter after read-only calls {sorted(set(done))}")
    ctx.count("read_batches")
    ctx.count("read_only_calls", len(done))
    case.nontrivial = True


PROP = Prop(
    "C19",
    "exploration",
    rule=("every structure is driven to a random reachable state (Bloom filters incl. results of set operations, reloads and on-disk files; sketches incl. removals "
          "of keys never added, which leave a zero total with non-zero cells; cuckoo filters after evictions; quotient filters after removals), then receives 5-16 "
          "read-only calls with present and absent keys; the observable state (exported bytes, hex, counters, tables, bucket table, metadata dump, raw backing file) "
          "is compared before/after. Structures with clear() are then cleared and compared with a fresh object, also under the same further history. "
          "Every case is non-trivial; distinct by hash of (parameters, operations)."),
    workloads=[
        Workload("bloom", wl_bloom, quick=600, thorough=200000),
        Workload("unexportable", wl_unexportable, quick=24, thorough=600),
        Workload("expanding", wl_expanding, quick=300, thorough=100000),
        Workload("sketch", wl_sketch, quick=700, thorough=250000),
        Workload("cuckoo", wl_cuckoo, quick=400, thorough=150000),
        Workload("quotient", wl_quotient, quick=400, thorough=150000),
    ],
    assumptions=["observable state = what the public API exposes (exports, counters, tables, bucket table, print() dump)"],
    required=["read_batches", "read_only_calls", "clear_comparisons", "states_with_zero_total_but_nonzero_cells", "reloaded_states", "refused_exports", "twin_comparisons",
              "quotient.completely_full_tables", "quotient.states_whose_load_is_at_or_over_the_limit_with_growing_on"],
)
