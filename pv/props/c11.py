"""C11 - the on-disk Bloom filter's file is always a valid, current export.

Crash-point enumeration.  While an add / close / export of a BloomFilterOnDisk is in progress, EVERY executed library source line
(sys.monitoring LINE events) is a crash point: the backing file is read through an independent read-only descriptor - what a
SIGKILL at that line would leave in the page cache - and validated against an independent Bloom model of the completed additions.
The kill workload validates that equivalence with real SIGKILLs (one child process per crash point) and then reopens what is left.
"""
import json
import os
import struct
import subprocess
import sys

from .. import bl, gen, linehook, refimpl, repo
from ..core import Prop, Workload, Inconclusive


def c11_keys(rng, n):
    out = []
    beyond_ascii = rng.random() < 0.3  # some universes hold text keys beyond ASCII (an on-disk filter hashes them like an in-memory one)
    while len(out) < n:
        k = "".join(rng.choice("abcdefgh") for _ in range(rng.randint(1, 6))) if rng.random() < 0.7 else bytes(rng.getrandbits(8) for _ in range(rng.randint(1, 5)))
        if beyond_ascii and rng.random() < 0.4:
            k = rng.choice(["na\u00efve caf\u00e9", "\u6771\u4eac", "cafe\u0301", "\u00e9", "\U0001f600x", "\u00df\u1e9e", "a\u0308"]) + rng.choice(["", "1", "zz"])
        if k not in out:
            out.append(k)
    return out


def geometry(rng):
    for _ in range(100):
        est, rate, m, k = gen.bloom_geometry(rng, small=True, max_bits=4000)
        if k <= 12 and refimpl.bloom_sizing_simple(est, refimpl.f32(rate)) == (m, k):
            return est, rate, m, k
    return 10, 0.05, 63, 4


class FileOracle:
    """independent model of what the backing file must look like"""

    def __init__(self, est, rate, m, k, hf=None):
        self.est, self.rate32, self.m, self.k = est, refimpl.f32(rate), m, k
        # the strategy the filter was GIVEN (None: the documented default, recomputed independently)
        self.hashes = refimpl.fnv_chain_key if hf is None else hf
        self.model = refimpl.BloomModel(m, k)
        self.completed = 0
        self.blen = (m + 7) // 8

    def bits_of_key(self, key):
        mdl = refimpl.BloomModel(self.m, self.k)
        mdl.add(self.hashes(key, self.k))
        return mdl.cells

    def complete(self, key):
        self.model.add(self.hashes(key, self.k))
        self.completed += 1

    def expected_file(self):
        return bytes(self.model.cells) + refimpl.BLOOM_FOOTER.pack(self.est, self.completed, self.rate32)

    def validate(self, ctx, snap, inflight_key, where):
        """snap: bytes of the backing file at a crash point"""
        ctx.counters["oracle_evaluations"] += 1
        if len(snap) != self.blen + 20:
            ctx.fail(f"backing file has {len(snap)} bytes, a well-formed export of this filter has {self.blen + 20} {where}")
        est, cnt, fpr = refimpl.BLOOM_FOOTER.unpack(snap[-20:])
        if est != self.est or fpr != self.rate32:
            ctx.fail(f"footer of the backing file does not describe this filter {where}", footer=(est, fpr), want=(self.est, self.rate32))
        allowed = {self.completed} | ({self.completed + 1} if inflight_key is not None else set())
        if cnt not in allowed:
            ctx.fail(f"recorded element count {cnt} is not the number of completed additions {sorted(allowed)} {where}", completed=self.completed)
        bits = snap[: self.blen]
        extra = self.bits_of_key(inflight_key) if inflight_key is not None else [0] * self.blen
        if inflight_key is not None and cnt == self.completed + 1:
            # the count may lag behind the in-flight addition, it must never lead it: once it is recorded, all its bits are there
            for i in range(self.blen):
                if extra[i] & ~bits[i]:
                    ctx.fail(f"the element count already records the in-flight addition although its bits are not in the file yet (byte {i}) {where}",
                             count=cnt, completed=self.completed)
        for i in range(self.blen):
            have, need = bits[i], self.model.cells[i]
            if need & ~have:
                ctx.fail(f"backing file lacks a bit of a completed addition (byte {i}) {where}", have=have, need=need)
            if have & ~(need | extra[i]):
                ctx.fail(f"backing file has a bit that neither a completed nor the in-flight addition sets (byte {i}) {where}", have=have, allowed=need | extra[i])


class Snapshotter:
    """line callback: read the whole backing file through an independent descriptor at every executed library line"""

    def __init__(self, ctx, path, oracle):
        self.ctx, self.path, self.oracle = ctx, path, oracle
        self.fd = os.open(path, os.O_RDONLY)
        self.inflight = None
        self.label = ""
        self.last = None
        self.points = 0
        self.states = 0
        self.images = None  # set to [] to keep a few crash images (file contents at a crash point) for a reopen afterwards
        self.keep = ()

    def __call__(self, code, line):
        self.points += 1
        size = os.fstat(self.fd).st_size
        snap = os.pread(self.fd, size + 64, 0)
        if snap == self.last:
            return
        self.last = snap
        self.states += 1
        if self.images is not None and len(self.images) < 4 and (self.states in self.keep or len(self.images) < 1):
            self.images.append((snap, self.oracle.completed, f"{os.path.basename(code.co_filename)}:{line} during {self.label}"))
        linehook.pause()
        try:
            self.oracle.validate(self.ctx, snap, self.inflight, f"at crash point {os.path.basename(code.co_filename)}:{line} during {self.label}")
        finally:
            linehook.resume()

    def boundary(self, label, inflight=None):
        size = os.fstat(self.fd).st_size
        snap = os.pread(self.fd, size + 64, 0)
        self.oracle.validate(self.ctx, snap, inflight, f"at the call boundary {label}")
        self.last = snap

    def close(self):
        os.close(self.fd)


def wl_snapshots(ctx, rng, case):
    """in-process crash-point snapshots over add / export / close / reopen histories"""
    import probables as P

    if not linehook.available():
        raise Inconclusive("sys.monitoring unavailable")
    est, rate, m, k = geometry(rng)
    keys = c11_keys(rng, rng.randint(2, 8))
    sc = bl.Scratch(ctx, case)
    cwd0 = os.getcwd()
    d1 = os.path.join(sc.dir, "here")
    os.makedirs(d1, exist_ok=True)
    path = os.path.join(d1, "filter.blm")
    # the same directory is also reachable through a symbolic link ("current" -> "here"): another spelling of every path in it
    os.symlink("here", os.path.join(sc.dir, "current"))
    lpath = os.path.join(sc.dir, "current", "filter.blm")
    # ... and through a link into a directory BELOW it followed by "..": "jump" -> "here/nested", so jump/../filter.blm is here/filter.blm
    # for the operating system (and sc.dir/filter.blm for anyone who collapses ".." before following the link)
    os.makedirs(os.path.join(d1, "nested"), exist_ok=True)
    os.symlink(os.path.join("here", "nested"), os.path.join(sc.dir, "jump"))
    jpath = os.path.join(sc.dir, "jump", "..", "filter.blm")
    via_link = rng.random() < 0.4
    case.desc = {"est": est, "rate": rate, "bits": m, "hashes": k, "n_keys": len(keys), "opened_through_a_symlinked_directory": via_link}
    ctx.observe("bits_mod_8", m % 8)
    f = None
    snap = None
    try:
        form = rng.choice(["abs", "rel_same_dir", "rel_other_dir"])
        os.chdir(d1 if form == "rel_same_dir" else (sc.other if form == "rel_other_dir" else cwd0))
        given = path if form == "abs" else os.path.relpath(path, os.getcwd())
        if via_link:
            given = lpath if form == "abs" else os.path.relpath(lpath, sc.other if form == "rel_other_dir" else sc.dir)
            os.chdir(sc.other if form == "rel_other_dir" else (sc.dir if form != "abs" else cwd0))
            ctx.count("histories_opened_through_a_symlinked_directory")
        # a third of the histories run with a supplied hash strategy (re-supplied at every reopen)
        hname, hf = gen.pick_hash(rng, keys) if rng.random() < 0.35 else ("library_default", None)
        case.desc["hash"] = hname
        ctx.observe("hash_strategies", hname)
        pre = rng.choice(["nothing", "nothing", "a longer export", "a longer export", "a shorter file", "junk of the same length"])
        case.desc["at_the_location_before_creation"] = pre
        if pre != "nothing":
            # the location is not new: it holds the backing file of an earlier, roomier (or smaller) filter, or junk - creation replaces it
            with open(path, "wb") as fh:
                fh.write(bytes(P.BloomFilter(est * rng.randint(3, 30) + 11, 0.01)) if pre == "a longer export" else
                         (bytes(P.BloomFilter(1, 0.5)) if pre == "a shorter file" else b"\x5a" * ((m + 7) // 8 + 20)))
            ctx.count("filters_created_over_an_existing_file")
        f = P.BloomFilterOnDisk(given, est, rate, **bl.kw_hash(hf))
        case.op("create", form)
        orc = FileOracle(est, rate, m, k, hf)
        snap = Snapshotter(ctx, path, orc)
        snap.boundary("after creation")
        snap.images, snap.keep = [], set(rng.sample(range(1, 40), 6))
        added = []
        stale = None
        exported = []  # (path, bytes at the time of the export): an export is a copy - what happens to the filter later does not reach it
        # some histories hand every key over in ONE mutable buffer that the caller refills in place between the calls (a read loop)
        buf = bytearray() if hf is None and rng.random() < 0.2 else None
        if buf is not None:
            case.desc["keys_in_one_reused_bytearray"] = True
            ctx.count("histories_with_a_reused_key_buffer")
        for step in range(rng.randint(3, 14)):
            r = rng.random()
            if r < 0.6:
                key = rng.choice(keys)
                if buf is not None:
                    key = gen.to_bytes(key)  # (what goes through the byte buffer IS a bytes key - for text beyond ASCII another key than the text)
                case.op("add", key)
                snap.inflight, snap.label = key, f"add #{len(added) + 1} ({key!r})"
                arg = key
                if buf is not None:
                    buf[:] = key
                    arg = buf if rng.random() < 0.7 else memoryview(buf)
                with linehook.on_every_line(snap):
                    # (a fifth of the additions go through add_alt, half of those with a list computed for a DEEPER filter: only the first
                    # number_hashes values count)
                    f.add(arg) if rng.random() < 0.8 else f.add_alt(f.hashes(arg, k + rng.choice([0, 0, 2, 5])))
                orc.complete(key)
                added.append(key)
                snap.inflight = None
                snap.boundary(f"after add #{len(added)}")
                ctx.count("adds_under_snapshots")
                if stale is not None and rng.random() < 0.5:
                    # a CLOSED earlier handle on this file is still around and is asked to export: that is refused - and does not reach the
                    # file the present handle has open (whatever numbers the operating system re-used for it)
                    try:
                        stale.export(sc.path("from-a-closed-handle", sub="exports"))
                        ctx.count("exports_from_a_closed_handle_that_went_through")
                    except Exception:
                        ctx.count("refused_exports_from_a_closed_handle")
                    snap.boundary("after a refused export on a closed earlier handle")
            elif r < 0.66 and k >= 2:
                # a REFUSED addition: add_alt with a hash list that is too short raises part-way.  It is not a completed addition:
                # the recorded count must not include it, now or after the next add / export / close (its bits may be there).
                key = rng.choice(keys)
                j = rng.randint(0, k - 1)
                short = orc.hashes(key, k)[:j]
                case.op("refused add_alt", key, j)
                snap.inflight, snap.label = None, "refused add_alt"
                try:
                    f.add_alt(short)
                    refused = False
                except Exception:
                    refused = True
                if refused:
                    for h in short:
                        pos = h % m
                        orc.model.cells[pos // 8] |= 1 << (pos % 8)  # bits written before the failure are tolerated, the count is not
                    snap.boundary("after a refused add_alt")
                    ctx.count("refused_additions")
                else:
                    # an implementation that accepts a short list has performed an addition of those positions
                    for h in short:
                        pos = h % m
                        orc.model.cells[pos // 8] |= 1 << (pos % 8)
                    orc.completed += 1
                    snap.boundary("after add_alt with a short hash list")
            elif r < 0.69:
                # export to the filter's OWN backing file, named absolutely or relatively: documented as "nothing to do"; the file stays current
                os.chdir(rng.choice([d1, sc.other]))
                own = rng.choice([path, os.path.relpath(path, os.getcwd()), os.path.join(os.path.relpath(os.path.dirname(path), os.getcwd()), ".", os.path.basename(path)),
                                  lpath, os.path.relpath(lpath, sc.other), os.path.join(sc.dir, "here", "..", "current", "filter.blm"),
                                  jpath, os.path.join("..", "jump", "..", "filter.blm")])
                if "jump" in own:
                    os.chdir(sc.other)
                    ctx.count("exports_to_own_file_spelled_through_a_symlink_and_dotdot")
                if "current" in own:
                    os.chdir(sc.other)
                    ctx.count("exports_to_own_file_spelled_through_a_symlink")
                case.op("export-to-own-file", own)
                snap.label = "export to own file"
                with linehook.on_every_line(snap):
                    f.export(own)
                snap.boundary("after export to the own backing file")
                ctx.count("exports_to_own_file")
            elif r < 0.72:
                # export to another location, possibly from another working directory
                os.chdir(rng.choice([cwd0, sc.other, d1]))
                tgt = sc.path("export", sub="exports")
                case.op("export", os.getcwd() == d1)
                snap.label = "export"
                with linehook.on_every_line(snap):
                    f.export(tgt)
                with open(tgt, "rb") as fh:
                    copy = fh.read()
                ctx.check(copy == orc.expected_file(), "export(path) is not the current export of the filter", step=step)
                exported.append((tgt, copy))
                snap.boundary("after export")
                ctx.count("exports_under_snapshots")
            else:
                case.op("close+reopen")
                snap.label = "close"
                with linehook.on_every_line(snap):
                    f.close()
                with open(path, "rb") as fh:
                    closed = fh.read()
                ctx.check(closed == orc.expected_file(), "after close the backing file differs from what an in-memory filter with the same history exports",
                          step=step, completed=orc.completed)
                ctx.count("closes_under_snapshots")
                # reopen: absolute / relative path, cwd = the file's directory or elsewhere
                form = rng.choice(["abs_other_cwd", "abs_same_cwd", "rel_other_cwd", "rel_same_cwd"])
                os.chdir(d1 if form.endswith("same_cwd") else sc.other)
                given = path if form.startswith("abs") else os.path.relpath(path, os.getcwd())
                if rng.random() < 0.3:
                    given = lpath if form.startswith("abs") else os.path.relpath(lpath, sc.other)
                    os.chdir(sc.other)
                elif rng.random() < 0.25:
                    given = jpath if form.startswith("abs") else os.path.join("..", "jump", "..", "filter.blm")
                    os.chdir(sc.other)
                    ctx.count("reopens_spelled_through_a_symlink_and_dotdot")
                stale = f  # (the closed handle stays around: see the additions above)
                f = P.BloomFilterOnDisk(given, **bl.kw_hash(hf))
                os.chdir(rng.choice([cwd0, sc.other, d1]))
                ctx.check(f.elements_added == orc.completed, f"reopened filter ({form}) reports another element count", got=f.elements_added, want=orc.completed)
                for kk in added:
                    ctx.check(f.check(kk), f"reopened filter ({form}) does not report an added key", key=kk)
                ctx.check((f.number_bits, f.number_hashes, f.estimated_elements) == (m, k, est), f"reopened filter ({form}) has another geometry")
                snap.boundary(f"after reopen ({form})")
                ctx.count(f"reopen.{form}")
                ctx.count("reopens")
        snap.label = "final close"
        with linehook.on_every_line(snap):
            f.close()
        with open(path, "rb") as fh:
            ctx.check(fh.read() == orc.expected_file(), "after the final close the backing file differs from the in-memory export of the same history")
        for tgt, copy in exported:
            with open(tgt, "rb") as fh:
                ctx.check(fh.read() == copy, "a file exported earlier changed while the filter it was exported from went on")
        ctx.count("crash_points", snap.points)
        ctx.count("distinct_file_states_validated", snap.states)
        # ---- a few of the crash images (what a kill at that line leaves behind) are REOPENED: the filter reports the count the file
        # records - no more, no less - and keeps it, and the bits, on the next close
        for image, completed_then, where_ in snap.images:
            ip = sc.path("image")
            with open(ip, "wb") as fh:
                fh.write(image)
            recorded = refimpl.BLOOM_FOOTER.unpack(image[-20:])[1]
            g = P.BloomFilterOnDisk(ip, **bl.kw_hash(hf))
            ctx.check(g.elements_added == recorded, f"a filter reopened from the crash image {where_} reports another element count than the file records",
                      got=g.elements_added, recorded=recorded, completed_additions=completed_then)
            g.close()
            with open(ip, "rb") as fh:
                after = fh.read()
            ctx.check(after == image, f"reopening and closing the crash image {where_} changed the file", count_before=recorded, count_after=refimpl.BLOOM_FOOTER.unpack(after[-20:])[1] if len(after) >= 20 else None)
            ctx.count("crash_images_reopened")
        case.nontrivial = len(added) >= 1
    finally:
        os.chdir(cwd0)
        if snap is not None:
            snap.close()
        if f is not None:
            try:
                f.close()
            except Exception:
                pass
        sc.cleanup()


def wl_same_relative_name(ctx, rng, case):
    """two on-disk filters created under the SAME relative name from two working directories in one process, interleaved"""
    import probables as P

    sc = bl.Scratch(ctx, case)
    cwd0 = os.getcwd()
    name = rng.choice(["data.blm", "f.bin", "sub/data.blm"])
    dirs = [os.path.join(sc.dir, "a"), os.path.join(sc.dir, "b")]
    for d in dirs:
        os.makedirs(os.path.join(d, "sub"), exist_ok=True)
    geos = [geometry(rng), geometry(rng)]
    keysets = [c11_keys(rng, 3), c11_keys(rng, 3)]
    case.desc = {"name": name, "geometries": geos}
    fs = [None, None]
    try:
        orcs = []
        for i in (0, 1):
            os.chdir(dirs[i])
            est, rate, m, k = geos[i]
            fs[i] = P.BloomFilterOnDisk(name, est, rate)
            orc = FileOracle(est, rate, m, k)
            for key in keysets[i]:
                fs[i].add(key)
                orc.complete(key)
            orcs.append(orc)
            if rng.random() < 0.5:
                fs[i].close()
                fs[i] = None
        os.chdir(cwd0)
        for i in (0, 1):
            if fs[i] is not None:
                fs[i].close()
                fs[i] = None
        for i in (0, 1):
            p = os.path.join(dirs[i], name)
            ctx.check(os.path.exists(p), f"the filter created as {name!r} from directory {'ab'[i]} has no backing file there")
            with open(p, "rb") as fh:
                ctx.check(fh.read() == orcs[i].expected_file(), f"backing file of the filter created as {name!r} in directory {'ab'[i]} is not the export of ITS history")
            os.chdir(dirs[i])
            g = P.BloomFilterOnDisk(name)
            ctx.check(g.elements_added == orcs[i].completed and all(g.check(kk) for kk in keysets[i]), f"reopening {name!r} from directory {'ab'[i]} gives another filter")
            g.close()
            os.chdir(cwd0)
        ctx.count("same_relative_name_cases")
        case.nontrivial = True
    finally:
        os.chdir(cwd0)
        for f in fs:
            if f is not None:
                try:
                    f.close()
                except Exception:
                    pass
        sc.cleanup()


def wl_large_file(ctx, rng, case):
    """backing files of several pages (24 KB .. 250 KB): the mapping spans many pages, the footer is far from the first page.
    Per-line snapshots for the first and the last add, call-boundary snapshots for the rest, close, reopen from elsewhere."""
    import probables as P

    if not linehook.available():
        raise Inconclusive("sys.monitoring unavailable")
    est, rate = rng.choice([(20000, 0.01), (50000, 0.05), (200000, 0.01), (8000, 1e-6)])
    mk = refimpl.bloom_sizing_simple(est, rate)
    if mk is None:
        return
    m, k = mk
    keys = [f"large-{case.index}-{i}" for i in range(rng.randint(6, 20))]
    sc = bl.Scratch(ctx, case)
    cwd0 = os.getcwd()
    path = os.path.join(sc.dir, "large.blm")
    case.desc = {"est": est, "rate": rate, "bits": m, "hashes": k, "file_bytes": (m + 7) // 8 + 20}
    ctx.maximum("largest_backing_file_bytes", (m + 7) // 8 + 20)
    f = None
    snap = None
    try:
        f = P.BloomFilterOnDisk(path, est, rate)
        orc = FileOracle(est, rate, m, k)
        snap = Snapshotter(ctx, path, orc)
        snap.boundary("after creation")
        for i, key in enumerate(keys):
            case.op("add", key)
            if i in (0, len(keys) - 1):
                snap.inflight, snap.label = key, f"add #{i + 1}"
                with linehook.on_every_line(snap):
                    f.add(key)
                snap.inflight = None
            else:
                f.add(key)
            orc.complete(key)
            snap.boundary(f"after add #{i + 1}")
        snap.label = "close"
        with linehook.on_every_line(snap):
            f.close()
        with open(path, "rb") as fh:
            ctx.check(fh.read() == orc.expected_file(), "large file: after close the backing file differs from the in-memory export of the same history")
        os.chdir(sc.other)
        f = P.BloomFilterOnDisk(os.path.relpath(path, sc.other))
        os.chdir(cwd0)
        ctx.check(f.elements_added == orc.completed and all(f.check(kk) for kk in keys), "large file: reopened filter lost keys or the count")
        f.add("one-more")
        orc.complete("one-more")
        snap.boundary("after an add on the reopened large file")
        tgt = sc.path("export")
        f.export(tgt)
        with open(tgt, "rb") as fh:
            ctx.check(fh.read() == orc.expected_file(), "large file: export(path) is not the current export")
        f.close()
        ctx.count("crash_points", snap.points)
        ctx.count("distinct_file_states_validated", snap.states)
        ctx.count("large_file_cases")
        case.nontrivial = True
    finally:
        os.chdir(cwd0)
        if snap is not None:
            snap.close()
        if f is not None:
            try:
                f.close()
            except Exception:
                pass
        sc.cleanup()


def wl_huge_file(ctx, rng, case):
    """backing files beyond 1 MiB (sizes at which an implementation might switch to another write strategy); additions through add() and
    through add_alt() with hand-made hash lists whose probes share bytes (two or three different bits of one byte, the first and the last
    byte of the array, a repeated position).  After EVERY completed addition the whole file must equal the export of an independent
    in-memory model; then close, reopen from elsewhere, one more addition."""
    import probables as P

    est, rate = rng.choice([(1_000_000, 0.01), (700_000, 0.001), (2_000_000, 0.05), (900_000, 0.01)])
    est += rng.randint(0, 50)
    mk = refimpl.bloom_sizing_simple(est, rate)
    if mk is None:
        return
    m, k = mk
    nbytes = (m + 7) // 8
    sc = bl.Scratch(ctx, case)
    cwd0 = os.getcwd()
    path = os.path.join(sc.dir, "huge.blm")
    case.desc = {"est": est, "rate": rate, "bits": m, "hashes": k, "file_bytes": nbytes + 20}
    ctx.maximum("largest_backing_file_bytes", nbytes + 20)
    f = None
    try:
        f = P.BloomFilterOnDisk(path, est, rate)
        orc = FileOracle(est, rate, m, k)

        def whole_file(where):
            with open(path, "rb") as fh:
                got = fh.read()
            ctx.counters["oracle_evaluations"] += 1
            want = orc.expected_file()
            if got != want:
                diff = [i for i in range(min(len(got), len(want))) if got[i] != want[i]][:6] if len(got) == len(want) else None
                ctx.fail(f"backing file of {nbytes + 20} bytes differs from the export of the same completed additions {where}", lengths=(len(got), len(want)), differing_bytes=diff)

        whole_file("after creation")
        n_add = rng.randint(8, 14)
        for i in range(n_add):
            if rng.random() < 0.45:
                key = f"huge-{case.index}-{i}"
                case.op("add", key)
                f.add(key)
                orc.complete(key)
            else:
                b0 = rng.choice([0, nbytes - 1, rng.randrange(nbytes), rng.randrange(nbytes)])
                width = min(8, m - 8 * b0)
                bits = rng.sample(range(width), min(width, rng.choice([2, 2, 3])))
                hl = [8 * b0 + x for x in bits]
                while len(hl) < k:
                    hl.append(rng.choice([rng.randrange(m), hl[0]]))
                rng.shuffle(hl)
                hl = [h + m * rng.randint(0, 2) for h in hl]
                case.op("add_alt", hl)
                f.add_alt(list(hl))
                orc.model.add(hl)
                orc.completed += 1
                ctx.count("huge_file.additions_with_probes_sharing_a_byte")
            whole_file(f"after addition #{i + 1} ({case.ops[-1][0]})")
            if i == n_add // 2 and rng.random() < 0.6:
                # an explicit clear in the middle: the file is again the export of an empty filter, whatever part of it held bits
                case.op("clear")
                f.clear()
                orc.model = refimpl.BloomModel(m, k)
                orc.completed = 0
                whole_file("after clear()")
                ctx.count("huge_file.clears")
        f.close()
        whole_file("after close")
        os.chdir(sc.other)
        f = P.BloomFilterOnDisk(os.path.relpath(path, sc.other))
        os.chdir(cwd0)
        ctx.check(f.elements_added == orc.completed, "huge file: the reopened filter reports another element count", got=f.elements_added, want=orc.completed)
        f.add("one-more")
        orc.complete("one-more")
        whole_file("after an addition on the reopened file")
        f.close()
        ctx.count("huge_file_cases")
        case.nontrivial = True
    finally:
        os.chdir(cwd0)
        if f is not None:
            try:
                f.close()
            except Exception:
                pass
        sc.cleanup()


# ------------------------------------------------------------------------------- real SIGKILL

def run_child(path, sidelog, hist_file, kill_at, timeout=90):
    """one child per crash point; a child that does not finish in time (loaded machine) is retried once with a long limit - a
    wall-clock limit is never a verdict"""
    env = dict(os.environ, PYTHONPATH=repo.VERIF_ROOT, VERIF_REPO=repo.REPO_ROOT, PYTHONDONTWRITEBYTECODE="1")
    cmd = [sys.executable, "-m", "pv.c11child", path, sidelog, hist_file, str(kill_at)]
    try:
        return subprocess.run(cmd, cwd=repo.VERIF_ROOT, env=env, capture_output=True, text=True, timeout=timeout)
    except subprocess.TimeoutExpired:
        for fn in (path, sidelog):
            if os.path.exists(fn):
                os.remove(fn)
        try:
            return subprocess.run(cmd, cwd=repo.VERIF_ROOT, env=env, capture_output=True, text=True, timeout=600)
        except subprocess.TimeoutExpired:
            return None


def wl_kill(ctx, rng, case):
    """a child process runs a scripted history and is killed (SIGKILL) at crash point N; the parent validates and reopens the file"""
    import probables as P

    est, rate, m, k = geometry(rng)
    keys = c11_keys(rng, rng.randint(2, 4))
    sc = bl.Scratch(ctx, case)
    d1 = os.path.join(sc.dir, "kill")
    os.makedirs(d1, exist_ok=True)
    path = os.path.join(d1, "k.blm")
    ops = [["create"]]
    for kk in keys:
        ops.append(["add", ["b", kk.hex()] if isinstance(kk, bytes) else ["s", kk]])
    if rng.random() < 0.5:
        ops.append(["close"])
        ops.append(["reopen", sc.other, path])
        ops.append(["add", ["s", "after-reopen"]])
    ops.append(["close"])
    hist = {"est": est, "rate": rate, "ops": ops}
    hist_file = os.path.join(sc.dir, "hist.json")
    with open(hist_file, "w") as fh:
        json.dump(hist, fh)
    case.desc = {"est": est, "rate": rate, "bits": m, "hashes": k, "ops": ops}
    try:
        # dry run: count the crash points of this history
        sidelog = os.path.join(sc.dir, "log0")
        r = run_child(path, sidelog, hist_file, 0)
        if r is None:
            ctx.count("kill_histories_skipped_child_too_slow")
            return
        if r.returncode != 0:
            ctx.fail("the scripted on-disk history failed without any kill", stderr=r.stderr[-800:])
        total = int([l for l in open(sidelog).read().splitlines() if l.startswith("END")][0].split()[1])
        ctx.maximum("crash_points_in_one_history", total)
        if ctx.tier == "quick":
            points = sorted(set(rng.sample(range(1, total + 1), min(total, 6)) + [1, total]))
        else:
            points = list(range(1, total + 1))  # EVERY crash point of the history
            case.desc["all_crash_points"] = True
        for n in points:
            for fn in (path,):
                if os.path.exists(fn):
                    os.remove(fn)
            sidelog = os.path.join(sc.dir, f"log{n}")
            r = run_child(path, sidelog, hist_file, n)
            if r is None:
                ctx.count("kill_points_skipped_child_too_slow")
                continue
            ctx.check(r.returncode == -9, f"child was expected to die from SIGKILL at crash point {n}", returncode=r.returncode, stderr=r.stderr[-400:])
            log = open(sidelog).read().splitlines()
            orc = FileOracle(est, rate, m, k)
            inflight = None
            done_keys = []
            for line in log:
                w = line.split()
                if w[0] == "done" and w[1] == "add":
                    op = ops[int(w[2])]
                    key = bytes.fromhex(op[1][1]) if op[1][0] == "b" else op[1][1]
                    orc.complete(key)
                    done_keys.append(key)
                    inflight = None
                elif w[0] == "start" and w[1] == "add":
                    op = ops[int(w[2])]
                    inflight = bytes.fromhex(op[1][1]) if op[1][0] == "b" else op[1][1]
                elif w[0] == "KILL":
                    where = f"after SIGKILL at crash point {n} ({w[2]})"
            with open(path, "rb") as fh:
                left = fh.read()
            orc.validate(ctx, left, inflight, where)
            ctx.count("real_kills_validated")
            # what is left can be reopened, reports every completed key and a consistent count, and keeps them on the next close
            g = P.BloomFilterOnDisk(path)
            ctx.check(g.elements_added in ({orc.completed} | ({orc.completed + 1} if inflight is not None else set())), f"reopen {where}: element count", got=g.elements_added)
            for kk in done_keys:
                ctx.check(g.check(kk), f"reopen {where}: a completed addition is not reported", key=kk)
            cnt = g.elements_added
            g.add("post-crash")
            g.close()
            with open(path, "rb") as fh:
                final = fh.read()
            ctx.check(refimpl.BLOOM_FOOTER.unpack(final[-20:])[1] == cnt + 1 and len(final) == orc.blen + 20, f"reopen {where}: the next close does not keep the count")
            h = P.BloomFilter(filepath=path)
            ctx.check(all(h.check(kk) for kk in done_keys) and h.check("post-crash"), f"reopen {where}: keys lost on the next close")
        ctx.count("kill_histories")
        case.nontrivial = True
    finally:
        sc.cleanup()


def finish(cov, merged, tier):
    c = merged["counters"]
    cov["crash_points"] = int(c.get("crash_points", 0)) + int(c.get("real_kills_validated", 0))
    cov["distinct_file_states"] = int(c.get("distinct_file_states_validated", 0))
    cov["real_sigkills"] = int(c.get("real_kills_validated", 0))


PROP = Prop(
    "C11",
    "fault_enumeration",
    rule=("snapshots: histories of add / add_alt / export (from several working directories) / close + reopen (absolute and relative path, cwd = the file's directory "
          "or elsewhere) on on-disk filters of random geometry; every executed library line during add / export / close is a crash point at which the backing file "
          "is read through an independent descriptor and validated; same_name: two filters created under the same relative name from two directories; kill: a child "
          "process is killed with SIGKILL at a crash point (quick: 8 sampled points per history; thorough: EVERY crash point of the history), the file validated and "
          "reopened. Non-trivial = at least one addition; distinct by hash of (parameters, operations)."),
    workloads=[
        Workload("same_name", wl_same_relative_name, quick=30, thorough=600),
        Workload("snapshots", wl_snapshots, quick=150, thorough=30000),
        Workload("large_file", wl_large_file, quick=8, thorough=300),
        Workload("huge_file", wl_huge_file, quick=3, thorough=40),
        Workload("kill", wl_kill, quick=4, thorough=96),
    ],
    assumptions=["process kill (SIGKILL): what was written through the mapping or the file descriptor survives in the page cache; power loss is out of scope",
                 "a snapshot through an independent descriptor equals what a kill at that line leaves (validated by the kill workload)",
                 "the hook is armed during add / export / close; creation, reopen and clear are checked at call boundaries only"],
    finish=finish,
    required=["crash_points", "distinct_file_states_validated", "real_kills_validated", "reopens", "exports_under_snapshots", "closes_under_snapshots",
              "same_relative_name_cases", "reopen.rel_other_cwd", "reopen.abs_other_cwd", "large_file_cases", "refused_additions", "exports_to_own_file", "exports_to_own_file_spelled_through_a_symlink",
              "histories_opened_through_a_symlinked_directory"],
    shards={"quick": 4, "thorough": 16},
)
