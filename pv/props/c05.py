"""C05 - export followed by load reproduces the structure on every channel.

Monitor shape: differential, original vs reload.  Every exportable class is driven to a reachable state, exported through every
channel it has (bytes, file path, file object, hex), loaded back THROUGH THE CLASS IT CAME FROM and compared on every query
(members and non-members), every documented accessor and on the re-exported bytes; all channels must carry the same payload.
"""
import io
import math
from collections import Counter

from .. import bl, ck, gen, refimpl
from ..core import Prop, Workload


def f32(x):
    return refimpl.f32(x)


def same_float(a, b):
    return a == b or (isinstance(a, float) and isinstance(b, float) and math.isclose(a, b, rel_tol=1e-12, abs_tol=0.0))


def compare(ctx, s, t, accessors, queries, keys, what):
    for name, get in accessors:
        a, b = get(s), get(t)
        ctx.counters["oracle_evaluations"] += 1
        if not (a == b or same_float(a, b)):
            ctx.fail(f"{what}: accessor {name} differs between the original and its reload", original=a, reloaded=b)
    for qname, q in queries:
        for k in keys:
            a, b = q(s, k), q(t, k)
            ctx.counters["oracle_evaluations"] += 1
            if a != b:
                ctx.fail(f"{what}: query {qname} answers differently after the reload", key=k, original=a, reloaded=b)
    ctx.count("reload_comparisons")


def payloads_equal(ctx, payloads, what):
    vals = list(payloads.items())
    for name, data in vals[1:]:
        ctx.check(data == vals[0][1], f"{what}: channel {name} carries another payload than channel {vals[0][0]}", len_a=len(vals[0][1]), len_b=len(data))
    ctx.count("payload_comparisons", max(0, len(vals) - 1))


def raw_payloads(obj, sc, channels=("bytes", "path", "fileobj", "realfile", "pathlib")):
    return {c: bl.export_bytes_via(obj, c, sc) for c in channels}


# ------------------------------------------------------------------------------- Bloom family

BLOOM_ACC = [("estimated_elements", lambda o: o.estimated_elements), ("false_positive_rate", lambda o: o.false_positive_rate),
             ("number_bits", lambda o: o.number_bits), ("number_hashes", lambda o: o.number_hashes), ("bloom_length", lambda o: o.bloom_length),
             ("elements_added", lambda o: o.elements_added), ("export_size()", lambda o: o.export_size()),
             ("estimate_elements()", lambda o: o.estimate_elements()), ("current_false_positive_rate()", lambda o: o.current_false_positive_rate()),
             ("cells", lambda o: bl.cells_of(o)), ("str", lambda o: str(o).replace("is on disk: yes", "is on disk: no"))]
MEMBER_Q = [("check", lambda o, k: o.check(k)), ("in", lambda o, k: k in o)]


def wl_bloom(ctx, rng, case):
    import probables as P

    counting = rng.random() < 0.4
    est, rate, m, k = gen.bloom_geometry(rng, max_bits=4000 if counting else 60000)
    if case.index % 12 == 5:
        # a request whose geometry sits on the single-precision edge: sized from the full-precision rate it would differ from the geometry
        # of the narrowed rate that the export records (and every loader sizes from)
        est, text = rng.choice([e for e in gen.f32_edge_requests() if e[0] < 20000])
        rate = float(text)
        m, k = refimpl.bloom_sizing_simple(est, rate)
        ctx.count("requests_on_the_float32_edge")
    keys = gen.universe(rng, rng.randint(3, 24))
    hname, hf = gen.pick_hash(rng, keys)
    cls = P.CountingBloomFilter if counting else P.BloomFilter
    case.desc = {"cls": cls.__name__, "est": est, "rate": rate, "bits": m, "hashes": k, "hash": hname}
    ctx.observe("classes", cls.__name__)
    ctx.observe("bits_mod_8", m % 8)
    sc = bl.Scratch(ctx, case)
    try:
        if counting:
            s = cls(est, rate, **bl.kw_hash(hf))
            out = Counter()
            for _ in range(rng.randint(0, 14)):
                kk = rng.choice(keys)
                r = rng.random()
                if r < 0.7:
                    n = rng.choice([1, 2, 5, 1000, 2**31, 2**32 - 2, 2**32 - 1, 2**33]) if rng.random() < 0.3 else 1
                    s.add(kk, n)
                    out[kk] += n
                    case.op("add", kk, n)
                elif out[kk] > 0 and s.check(kk) < 2**32 - 1:
                    n = rng.randint(1, min(3, out[kk]))  # legitimate removals only
                    s.remove(kk, n)
                    out[kk] -= n
                    case.op("remove", kk, n)
            if any(c == 2**32 - 1 for c in bl.cells_of(s)):
                ctx.count("saturated_states")
        else:
            s, d = bl.reachable_bloom(P, rng, est, rate, hf, keys)
            case.op("state", d)
        what = f"{cls.__name__}"
        pay = raw_payloads(s, sc)
        payloads_equal(ctx, pay, what)
        data = pay["bytes"]
        hx = s.export_hex()
        hp = refimpl.parse_hex_bloom(hx)
        ctx.check(hp["body"] + refimpl.BLOOM_FOOTER.pack(hp["est"], hp["added"], hp["fpr32"]) == data if not counting else True,
                  f"{what}: hex export carries another payload than the byte export")
        if counting:
            cells = [int.from_bytes(hp["body"][i:i + 4], "little") for i in range(0, len(hp["body"]), 4)]
            ctx.check(hp["body"] == data[:-20] and (hp["est"], hp["added"]) == (s.estimated_elements, s.elements_added), f"{what}: hex export carries another payload than the byte export",
                      cells=cells[:8])
        p = sc.path("load")
        with open(p, "wb") as fh:
            fh.write(data)
        loaders = {
            "frombytes": lambda: cls.frombytes(data, **bl.kw_hash(hf)),
            "frombytes(bytearray)": lambda: cls.frombytes(bytearray(data), **bl.kw_hash(hf)),
            "frombytes(memoryview)": lambda: cls.frombytes(memoryview(data), **bl.kw_hash(hf)),
            "frombytes(memoryview of bytearray)": lambda: cls.frombytes(memoryview(bytearray(data)), **bl.kw_hash(hf)),
            "filepath": lambda: cls(filepath=p, **bl.kw_hash(hf)),
            # the create-or-open idiom: sizing arguments given ALONG WITH an existing file are ignored, the file decides
            "filepath + stray sizing arguments": lambda: cls(est_elements=rng.randint(1, 500), false_positive_rate=rng.choice([0.3, 0.05, 0.011, 0.001]), filepath=p, **bl.kw_hash(hf)),
            "hex_string": lambda: cls(hex_string=hx, **bl.kw_hash(hf)),
        }
        probe = keys + ["never-added-1", b"never-added-2"]
        buf = bytearray(data)
        tb = cls.frombytes(buf, **bl.kw_hash(hf))
        tb_loaded = bytes(tb)
        ctx.check(tb_loaded == data, f"{what}: frombytes(bytearray) re-exports other bytes than it was given")
        for i in range(len(buf)):
            buf[i] ^= 0xFF  # the caller re-uses its buffer
        ctx.check(bytes(tb) == tb_loaded, f"{what}: a filter loaded from a bytearray changed when the caller overwrote that buffer (shared storage)")
        ctx.count("aliasing_checks")
        # several export+load cycles in a row, alternating the channels
        t = s
        for cyc in range(3):
            t = cls.frombytes(bytes(t), **bl.kw_hash(hf)) if cyc % 2 == 0 else cls(hex_string=t.export_hex(), **bl.kw_hash(hf))
        compare(ctx, s, t, BLOOM_ACC, MEMBER_Q, probe, f"{what} after 3 export+load cycles")
        ctx.check(bytes(t) == data, f"{what}: bytes drift over repeated export+load cycles")
        ctx.count("chained_reload_checks")
        for lname, ld in loaders.items():
            t = ld()
            ctx.check(type(t) is cls, f"{what}: loader {lname} returned a {type(t).__name__}")
            compare(ctx, s, t, BLOOM_ACC, MEMBER_Q, probe, f"{what} via {lname}")
            ctx.check(bytes(t) == data, f"{what}: re-export after loading via {lname} differs from the original export")
            ctx.check(t.export_hex() == hx, f"{what}: hex re-export after loading via {lname} differs")
            ctx.count(f"channel.{lname}")
            # the reload keeps working like the original
            k2 = rng.choice(keys)
            s2 = cls.frombytes(data, **bl.kw_hash(hf))
            (t.add(k2), s2.add(k2))
            ctx.check(bytes(t) == bytes(s2), f"{what}: after one more add the reload (via {lname}) diverges from the original")
        # ---- the SAME object goes on and is exported again (whatever an export remembers must follow later changes)
        out2 = Counter()
        for cycle in range(rng.randint(1, 2)):
            for _ in range(rng.randint(1, 5)):
                k2 = rng.choice(keys)
                if counting and out2[k2] and rng.random() < 0.3:
                    s.remove(k2, 1)
                    out2[k2] -= 1
                elif counting:
                    s.add(k2, 2)
                    out2[k2] += 2
                else:
                    s.add(k2)
            if s.elements_added < 0:
                break
            chan = rng.choice(["bytes", "path", "fileobj", "hex"])
            t = cls(hex_string=s.export_hex(), **bl.kw_hash(hf)) if chan == "hex" else cls.frombytes(bl.export_bytes_via(s, chan, sc), **bl.kw_hash(hf))
            compare(ctx, s, t, BLOOM_ACC, MEMBER_Q, probe, f"{what}, export #{cycle + 2} of the same object (via {chan})")
            ctx.count("repeated_exports_of_one_object")
        case.nontrivial = True
    finally:
        sc.cleanup()


def wl_ondisk(ctx, rng, case):
    import probables as P

    est, rate, m, k = gen.bloom_geometry(rng)
    keys = gen.universe(rng, rng.randint(3, 20))
    hname, hf = gen.pick_hash(rng, keys)
    case.desc = {"cls": "BloomFilterOnDisk", "est": est, "rate": rate, "bits": m, "hashes": k, "hash": hname}
    ctx.observe("classes", "BloomFilterOnDisk")
    ctx.observe("bits_mod_8", m % 8)
    sc = bl.Scratch(ctx, case)
    s = t = None
    try:
        p0 = sc.path("disk")
        s = P.BloomFilterOnDisk(p0, est, rate, **bl.kw_hash(hf))
        for _ in range(rng.randint(0, 12)):
            kk = rng.choice(keys)
            s.add(kk)
            case.op("add", kk)
        data = bytes(s)
        p1 = sc.path("copy", sub="elsewhere")
        s.export(p1)
        with open(p1, "rb") as fh:
            copy1 = fh.read()
        with open(p0, "rb") as fh:
            backing = fh.read()
        payloads_equal(ctx, {"bytes": data, "export(path)": copy1, "backing file": backing}, "BloomFilterOnDisk")
        t = P.BloomFilterOnDisk(p1, **bl.kw_hash(hf))
        acc = [a for a in BLOOM_ACC if a[0] not in ("str",)] + [("is_on_disk", lambda o: o.is_on_disk)]
        compare(ctx, s, t, acc, MEMBER_Q, keys + ["never-added"], "BloomFilterOnDisk via export(path) + BloomFilterOnDisk(path)")
        ctx.check(bytes(t) == data, "BloomFilterOnDisk: re-export of the reopened copy differs")
        ctx.count("channel.ondisk_path")
        # the same file through the in-memory class
        u = P.BloomFilter(filepath=p1, **bl.kw_hash(hf))
        compare(ctx, s, u, [a for a in acc if a[0] != "is_on_disk"], MEMBER_Q, keys, "BloomFilterOnDisk file via BloomFilter(filepath)")
        ctx.check(bytes(u) == data, "BloomFilter(filepath=<on-disk file>) re-exports other bytes")
        # ---- the element count is WRITABLE: a count set by the application and then saved with export(<own file>) (documented as nothing
        # to copy) is what every loader of that file reports
        if rng.random() < 0.5:
            n2 = rng.randint(0, 40)
            s.elements_added = n2
            s.export(p0)
            for lname, o in (("BloomFilter(filepath)", P.BloomFilter(filepath=p0, **bl.kw_hash(hf))), ("frombytes(file)", P.BloomFilter.frombytes(open(p0, "rb").read(), **bl.kw_hash(hf)))):
                ctx.check(o.elements_added == n2 == s.elements_added, f"BloomFilterOnDisk: the element count set by the application is not what {lname} reports after export to the own file",
                          got=o.elements_added, want=n2)
            ctx.check(bytes(s)[-20:] == open(p0, "rb").read()[-20:], "BloomFilterOnDisk: footer of bytes() and of the own file differ after export to the own file")
            ctx.count("ondisk_counts_set_by_the_application_and_saved")
        # ---- structures DERIVED from on-disk operands (both on disk, or one in memory): the union / intersection is an in-memory filter
        # like any other - every channel carries the same payload of export_size() bytes, and every loader gives it back
        other = P.BloomFilter(est, rate, **bl.kw_hash(hf))
        for kk in rng.sample(keys, min(4, len(keys))):
            other.add(kk)
        for name, r in (("ondisk.union(ondisk)", s.union(t)), ("ondisk.intersection(ondisk)", t.intersection(s)), ("ondisk.union(memory)", s.union(other)), ("memory.intersection(ondisk)", other.intersection(s))):
            if r is None or r.elements_added < 0:
                continue
            pay = raw_payloads(r, sc)
            payloads_equal(ctx, pay, f"result of {name}")
            ctx.check(len(pay["bytes"]) == r.export_size() == (m + 7) // 8 + 20, f"result of {name}: the export has {len(pay['bytes'])} bytes, export_size() says {r.export_size()}, the layout {(m + 7) // 8 + 20}")
            for lname, ld in (("frombytes", lambda: P.BloomFilter.frombytes(pay["bytes"], **bl.kw_hash(hf))), ("hex_string", lambda: P.BloomFilter(hex_string=r.export_hex(), **bl.kw_hash(hf)))):
                r2 = ld()
                compare(ctx, r, r2, [a for a in BLOOM_ACC if a[0] != "str"], MEMBER_Q, keys + ["never-added"], f"result of {name} via {lname}")
                ctx.check(bytes(r2) == pay["bytes"], f"result of {name}: re-export after loading via {lname} differs")
            ctx.count("results_of_set_operations_on_ondisk_operands_exported")
        case.nontrivial = True
    finally:
        for o in (s, t):
            if o is not None:
                try:
                    o.close()
                except Exception:
                    pass
        sc.cleanup()


def wl_expanding(ctx, rng, case):
    import probables as P

    rotating = rng.random() < 0.5
    est = rng.choice([1, 2, 3, 5, 8, 25])
    for _ in range(50):
        rate = rng.choice([0.5, 0.3, 0.1, 0.05, 0.01, 0.001])
        mk = refimpl.bloom_sizing_simple(est, rate)
        if mk and mk[1] >= 1:
            break
    keys = gen.universe(rng, rng.randint(3, 30))
    hname, hf = gen.pick_hash(rng, keys)
    Q = rng.randint(1, 5)
    cls = P.RotatingBloomFilter if rotating else P.ExpandingBloomFilter
    case.desc = {"cls": cls.__name__, "est": est, "rate": rate, "hash": hname, "queue": Q if rotating else None}
    ctx.observe("classes", cls.__name__)
    sc = bl.Scratch(ctx, case)
    try:
        extra = {"max_queue_size": Q} if rotating else {}
        s = cls(est_elements=est, false_positive_rate=rate, **extra, **bl.kw_hash(hf))
        for _ in range(rng.randint(0, 30)):
            r = rng.random()
            if r < 0.85:
                kk = rng.choice(keys)
                s.add(kk, force=rng.random() < 0.1)
                case.op("add", kk)
            elif r < 0.93:
                s.push()
                case.op("push")
            elif rotating and s.current_queue_size > 1:
                s.pop()
                case.op("pop")
        if (s.expansions if not rotating else s.current_queue_size - 1) > 0:
            ctx.count("states_after_growth_or_rotation")
        pay = raw_payloads(s, sc)
        payloads_equal(ctx, pay, cls.__name__)
        data = pay["bytes"]
        p = sc.path("load")
        with open(p, "wb") as fh:
            fh.write(data)
        from pathlib import Path as _Path

        loaders = {"frombytes": lambda: cls.frombytes(data, **extra, **bl.kw_hash(hf)), "filepath": lambda: cls(filepath=p, **extra, **bl.kw_hash(hf)),
                   "frombytes(memoryview)": lambda: cls.frombytes(memoryview(data), **extra, **bl.kw_hash(hf)),
                   "frombytes(bytearray)": lambda: cls.frombytes(bytearray(data), **extra, **bl.kw_hash(hf)),
                   "filepath(Path)": lambda: cls(filepath=_Path(p), **extra, **bl.kw_hash(hf)),
                   "filepath + stray sizing arguments": lambda: cls(est_elements=rng.randint(1, 500), false_positive_rate=rng.choice([0.3, 0.05, 0.011, 0.001]), filepath=p, **extra, **bl.kw_hash(hf))}
        acc = [("expansions", lambda o: o.expansions), ("elements_added", lambda o: o.elements_added), ("estimated_elements", lambda o: o.estimated_elements),
               ("false_positive_rate (as float32)", lambda o: f32(o.false_positive_rate)),
               ("per-filter counts and bits", lambda o: [(c, b) for c, b in refimpl.parse_expanding(bytes(o))["filters"]])]
        if rotating:
            acc += [("current_queue_size", lambda o: o.current_queue_size), ("max_queue_size", lambda o: o.max_queue_size)]
        for lname, ld in loaders.items():
            t = ld()
            ctx.check(type(t) is cls, f"{cls.__name__}: loader {lname} returned a {type(t).__name__}")
            compare(ctx, s, t, acc, MEMBER_Q, keys + ["never-added"], f"{cls.__name__} via {lname}")
            ctx.check(bytes(t) == data, f"{cls.__name__}: re-export after loading via {lname} differs from the original export")
            ctx.count(f"channel.{lname}")
            # continue the same history on both
            s2 = cls.frombytes(data, **extra, **bl.kw_hash(hf))
            for kk in rng.sample(keys, min(4, len(keys))):
                t.add(kk)
                s2.add(kk)
            ctx.check(bytes(t) == bytes(s2), f"{cls.__name__}: the reload (via {lname}) diverges from the original when the history continues")
        # ---- the SAME object goes on and is exported again and again (whatever an export remembers must follow pushes onto a full
        # queue, pops, growth): every later export is loaded and compared like the first
        for cycle in range(rng.randint(1, 3)):
            for _ in range(rng.randint(1, 6)):
                r = rng.random()
                if r < 0.55:
                    s.add(rng.choice(keys), force=rng.random() < 0.15)
                elif r < 0.85:
                    s.push()
                    if rotating and s.current_queue_size == Q:
                        ctx.count("pushes_onto_a_full_queue_between_exports")
                elif rotating and s.current_queue_size > 1:
                    s.pop()
            chan = rng.choice(["bytes", "path", "fileobj"])
            again = bl.export_bytes_via(s, chan, sc)
            t = cls.frombytes(again, **extra, **bl.kw_hash(hf))
            compare(ctx, s, t, acc, MEMBER_Q, keys + ["never-added"], f"{cls.__name__}, export #{cycle + 2} of the same object (via {chan})")
            ctx.check(bytes(t) == again, f"{cls.__name__}: re-export after loading export #{cycle + 2} differs")
            ctx.count("repeated_exports_of_one_object")
        case.nontrivial = True
    finally:
        sc.cleanup()


# ------------------------------------------------------------------------------- count-min family

def wl_sketch(ctx, rng, case):
    import probables as P

    cls_name = rng.choice(["CountMinSketch", "CountMeanSketch", "CountMeanMinSketch", "HeavyHitters", "StreamThreshold"])
    cls = getattr(P, cls_name)
    keys = [k for k in gen.universe(rng, rng.randint(3, 14), kinds=("str",))]
    hname, hf = gen.pick_hash(rng, keys)
    width, depth = rng.choice([2, 3, 4, 7, 50, 1000]), rng.randint(1, 6)
    extra = {"num_hitters": rng.randint(1, 4)} if cls_name == "HeavyHitters" else ({"threshold": rng.randint(1, 6)} if cls_name == "StreamThreshold" else {})
    sized = rng.random() < 0.2
    case.desc = {"cls": cls_name, "width": width, "depth": depth, "hash": hname, "extra": extra, "sized_by_confidence": sized}
    ctx.observe("classes", cls_name)
    sc = bl.Scratch(ctx, case)
    try:
        if sized:
            s = cls(confidence=rng.choice([0.5, 0.9, 0.99]), error_rate=rng.choice([0.5, 0.1, 0.01]), **extra, **bl.kw_hash(hf))
        else:
            s = cls(width=width, depth=depth, **extra, **bl.kw_hash(hf))
        true = Counter()
        for _ in range(rng.randint(0, 20)):
            kk = rng.choice(keys)
            r = rng.random()
            big = rng.random() < 0.08
            if r < 0.7 or cls_name == "HeavyHitters" or true[kk] == 0:
                n = rng.choice([2**31 - 1, 2**31 + 7, 2**62, 2**63 + 5]) if big else rng.randint(1, 5)
                s.add(kk, n)
                true[kk] += n
                case.op("add", kk, n)
            else:
                n = rng.choice([2**31 + 3, 2**63]) if big else rng.randint(1, max(1, min(true[kk], 5)))
                s.remove(kk, n)
                true[kk] -= n
                case.op("remove", kk, n)
            if cls_name != "HeavyHitters" and rng.random() < 0.12:
                # removal of a key that was never added / over-removal: counters go negative (a reachable state)
                k3 = rng.choice(keys + ["never-added"])
                n = rng.randint(1, 9)
                s.remove(k3, n)
                case.op("remove", k3, n)
                ctx.count("sketch_states_with_over_removal")
        if cls_name in ("CountMinSketch", "CountMeanSketch", "CountMeanMinSketch") and rng.random() < 0.3:
            # a state after join(): this sketch was the receiver of one or two joins (with fed partners of its own geometry)
            for _ in range(rng.randint(1, 2)):
                partner = cls(width=s.width, depth=s.depth, **bl.kw_hash(hf))
                for _ in range(rng.randint(0, 4)):
                    partner.add(rng.choice(keys), rng.randint(1, 6))
                s.join(partner)
            case.op("joined")
            ctx.count("sketch_states_after_join")
        st = refimpl.parse_cms(bytes(s))
        if any(c in (refimpl.INT32_MAX, refimpl.INT32_MIN) for c in st["cells"]):
            ctx.count("saturated_states")
        pay = raw_payloads(s, sc)
        payloads_equal(ctx, pay, cls_name)
        data = pay["bytes"]
        p = sc.path("load")
        with open(p, "wb") as fh:
            fh.write(data)
        from pathlib import Path as _Path

        loaders = {"frombytes": lambda: cls.frombytes(data, **extra, **bl.kw_hash(hf)), "filepath": lambda: cls(filepath=p, **extra, **bl.kw_hash(hf)),
                   "frombytes(memoryview)": lambda: cls.frombytes(memoryview(data), **extra, **bl.kw_hash(hf)),
                   "frombytes(bytearray)": lambda: cls.frombytes(bytearray(data), **extra, **bl.kw_hash(hf)),
                   "filepath(Path)": lambda: cls(filepath=_Path(p), **extra, **bl.kw_hash(hf)),
                   "filepath + stray sizing arguments": lambda: cls(width=rng.randint(1, 90), depth=rng.randint(1, 9), filepath=p, **extra, **bl.kw_hash(hf))}
        acc = [("width", lambda o: o.width), ("depth", lambda o: o.depth), ("elements_added", lambda o: o.elements_added), ("query_type", lambda o: o.query_type),
               ("counters", lambda o: refimpl.parse_cms(bytes(o))["cells"])]
        if not sized:
            acc += [("confidence", lambda o: o.confidence), ("error_rate", lambda o: o.error_rate)]
        if cls_name == "HeavyHitters":
            acc.append(("number_heavy_hitters", lambda o: o.number_heavy_hitters))
        if cls_name == "StreamThreshold":
            acc.append(("threshold", lambda o: o.threshold))
        for lname, ld in loaders.items():
            t = ld()
            ctx.check(type(t) is cls, f"{cls_name}: loader {lname} returned a {type(t).__name__}")
            compare(ctx, s, t, acc, [("check", lambda o, k: o.check(k)), ("in", lambda o, k: k in o)], keys + ["never-added"], f"{cls_name} via {lname}")
            ctx.check(bytes(t) == data, f"{cls_name}: re-export after loading via {lname} differs from the original export")
            ctx.count(f"channel.{lname}")
            k2 = rng.choice(keys)
            s2 = cls.frombytes(data, **extra, **bl.kw_hash(hf))
            r1, r2 = t.add(k2, 2), s2.add(k2, 2)
            ctx.check(bytes(t) == bytes(s2) and r1 == r2, f"{cls_name}: the reload (via {lname}) diverges from the original when the history continues", r1=r1, r2=r2)
        for cycle in range(rng.randint(1, 2)):
            for _ in range(rng.randint(1, 5)):
                s.add(rng.choice(keys), rng.randint(1, 3)) if cls_name == "HeavyHitters" or rng.random() < 0.7 else s.remove(rng.choice(keys), 1)
            chan = rng.choice(["bytes", "path", "fileobj"])
            t = cls.frombytes(bl.export_bytes_via(s, chan, sc), **extra, **bl.kw_hash(hf))
            compare(ctx, s, t, acc, [("check", lambda o, k: o.check(k)), ("in", lambda o, k: k in o)], keys + ["never-added"], f"{cls_name}, export #{cycle + 2} of the same object (via {chan})")
            ctx.count("repeated_exports_of_one_object")
        case.nontrivial = True
    finally:
        sc.cleanup()


# ------------------------------------------------------------------------------- cuckoo

def zero_fp_keys(cfg, n=4000):
    out = []
    for i in range(n):
        k = f"z{i}"
        if cfg.raw_fp(k) == 0:
            out.append(k)
            if len(out) >= 3:
                break
    return out


def wl_cuckoo(ctx, rng, case):
    import random as stdrandom

    import probables as P
    from probables.exceptions import CuckooFilterFullError

    cfg = ck.gen_cfg(rng, small=rng.random() < 0.6, allow_rate=False)
    by_error_rate = rng.random() < 0.3
    keys = ck.gen_keys(rng, cfg, rng.randint(3, 16))
    if rng.random() < 0.35 and cfg.finger_size == 1 and not by_error_rate:
        z = zero_fp_keys(cfg)
        keys = keys + z  # keys whose fingerprint equals the empty-slot marker
        if z:
            ctx.count("cases_with_zero_fingerprint_key")
    if len(keys) < 2:
        return
    cls = P.CountingCuckooFilter if cfg.counting else P.CuckooFilter
    kw = {} if cfg.hf is None else {"hash_function": cfg.hf}
    err = None
    if by_error_rate:
        err = rng.choice([0.5, 0.1, 0.01, 1e-4, 1e-6])
        s = cls.init_error_rate(err, capacity=cfg.capacity, bucket_size=cfg.bucket_size, max_swaps=cfg.max_swaps, expansion_rate=cfg.expansion_rate,
                                auto_expand=cfg.auto_expand, **kw)
    else:
        s = cfg.make(P)
    case.desc = dict(cfg.desc(), error_rate=err, n_keys=len(keys))
    ctx.observe("classes", cls.__name__)
    stdrandom.seed(rng.getrandbits(32))
    removed = 0
    for _ in range(rng.randint(0, 24)):
        kk = rng.choice(keys)
        try:
            if rng.random() < 0.8:
                s.add(kk)
                case.op("add", kk)
            else:
                removed += bool(s.remove(kk))
                case.op("remove", kk)
        except CuckooFilterFullError:
            case.op("full", kk)
    sc = bl.Scratch(ctx, case)
    try:
        pay = raw_payloads(s, sc)
        payloads_equal(ctx, pay, cls.__name__)
        data = pay["bytes"]
        p = sc.path("load")
        with open(p, "wb") as fh:
            fh.write(data)

        def resupply(g):
            if not by_error_rate:
                g.fingerprint_size = cfg.finger_size
            g.auto_expand = cfg.auto_expand
            g.expansion_rate = cfg.expansion_rate
            return g

        if by_error_rate:
            loaders = {"frombytes(error_rate)": lambda: resupply(cls.frombytes(data, error_rate=err, **kw)),
                       "load_error_rate": lambda: resupply(cls.load_error_rate(err, p, **kw))}
        else:
            from pathlib import Path as _Path

            loaders = {"frombytes": lambda: resupply(cls.frombytes(data, **kw)), "filepath": lambda: resupply(cls(filepath=p, **kw)),
                       "filepath(Path)": lambda: resupply(cls(filepath=_Path(p), **kw)),
                       "filepath(finger_size)": lambda: resupply(cls(filepath=p, finger_size=cfg.finger_size, **kw)),
                       "filepath + stray sizing arguments": lambda: resupply(cls(capacity=rng.randint(1, 99), bucket_size=rng.randint(1, 7), max_swaps=cfg.max_swaps, filepath=p, **kw))}

        def table(o):
            if cfg.counting:
                return [[(b.finger, b.count) for b in bucket] for bucket in o.buckets]
            return [[int(x) for x in bucket] for bucket in o.buckets]

        acc = [("capacity", lambda o: o.capacity), ("bucket_size", lambda o: o.bucket_size), ("max_swaps", lambda o: o.max_swaps),
               ("elements_added", lambda o: o.elements_added), ("load_factor()", lambda o: o.load_factor()), ("buckets", table),
               ("fingerprint_size_bits", lambda o: o.fingerprint_size_bits), ("error_rate", lambda o: o.error_rate)]
        if cfg.counting:
            acc.append(("unique_elements", lambda o: o.unique_elements))
        if any(0 < len(b) < s.bucket_size for b in s.buckets):
            ctx.count("states_with_partially_filled_buckets")
        t = s
        for cyc in range(3):
            t = list(loaders.values())[cyc % len(loaders)]() if cyc == 0 else resupply(cls.frombytes(bytes(t), **({"error_rate": err} if by_error_rate else {}), **kw))
        compare(ctx, s, t, acc, MEMBER_Q, keys + ["never-added"], f"{cls.__name__} after 3 export+load cycles")
        ctx.check(bytes(t) == data, f"{cls.__name__}: bytes drift over repeated export+load cycles")
        ctx.count("chained_reload_checks")
        if cfg.counting and not by_error_rate:
            loaders["frombytes(memoryview)"] = lambda: resupply(cls.frombytes(memoryview(data), **kw))
            loaders["frombytes(bytearray)"] = lambda: resupply(cls.frombytes(bytearray(data), **kw))
        for lname, ld in loaders.items():
            t = ld()
            ctx.check(type(t) is cls, f"{cls.__name__}: loader {lname} returned a {type(t).__name__}")
            compare(ctx, s, t, acc, MEMBER_Q, keys + ["never-added", b"nope"], f"{cls.__name__} via {lname}")
            ctx.check(bytes(t) == data, f"{cls.__name__}: re-export after loading via {lname} differs from the original export")
            # the loaded structure has now been exported itself: it is still the structure it was (same table, same answers) and exports the same again
            compare(ctx, s, t, acc, MEMBER_Q, keys + ["never-added"], f"{cls.__name__} loaded via {lname}, after it was exported again")
            ctx.check(bytes(t) == data, f"{cls.__name__}: the second re-export after loading via {lname} differs")
            ctx.count(f"channel.{lname}")
            # the reload keeps working like the original: the same further history (same random decisions) on this product and on a second
            # load of the same export gives the same results and the same table - and neither touches the other, the original, or the
            # products of the loaders still to come (each of those is compared with the original after this one was changed)
            s2 = resupply(cls.frombytes(data, **({"error_rate": err} if by_error_rate else {}), **kw))
            more = [(rng.random() < 0.7, rng.choice(keys)) for _ in range(rng.randint(2, 6))]
            seed2 = rng.getrandbits(32)
            outs = []
            for o in (t, s2):
                stdrandom.seed(seed2)
                res = []
                for is_add, kk in more:
                    try:
                        res.append(o.add(kk) if is_add else o.remove(kk))
                    except CuckooFilterFullError:
                        res.append("full")
                outs.append(res)
            ctx.check(outs[0] == outs[1] and table(t) == table(s2) and t.elements_added == s2.elements_added,
                      f"{cls.__name__}: the reload (via {lname}) diverges from a second load of the same export when the history continues", results=outs)
            ctx.check(bytes(s) == data, f"{cls.__name__}: changing a loaded copy (via {lname}) changed the original")
            ctx.count("loaded_copies_changed_before_the_next_load")
        case.nontrivial = True
    finally:
        sc.cleanup()


# ------------------------------------------------------------------------------- one spelling, two places

def wl_spellings(ctx, rng, case):
    """the SAME path spelling means different files at different times: a relative path used from two working directories, a path through
    a symbolic link that is re-pointed in between.  Two different structures of one class are exported to that spelling, one in each
    situation; each export lands where the operating system puts it, holds that structure's bytes, and loads back as that structure"""
    import os
    import random as stdrandom

    import probables as P

    kind = ["bloom", "counting_bloom", "cms", "cuckoo", "counting_cuckoo", "expanding", "rotating"][case.index % 7]
    stdrandom.seed(rng.getrandbits(32))
    mk = {"bloom": lambda: P.BloomFilter(30, 0.05), "counting_bloom": lambda: P.CountingBloomFilter(30, 0.05), "cms": lambda: P.CountMinSketch(width=20, depth=3),
          "cuckoo": lambda: P.CuckooFilter(capacity=20, bucket_size=2), "counting_cuckoo": lambda: P.CountingCuckooFilter(capacity=20, bucket_size=2),
          "expanding": lambda: P.ExpandingBloomFilter(5, 0.05), "rotating": lambda: P.RotatingBloomFilter(5, 0.05, max_queue_size=3)}[kind]
    load = {"bloom": lambda p: P.BloomFilter(filepath=p), "counting_bloom": lambda p: P.CountingBloomFilter(filepath=p), "cms": lambda p: P.CountMinSketch(filepath=p),
            "cuckoo": lambda p: P.CuckooFilter(filepath=p), "counting_cuckoo": lambda p: P.CountingCuckooFilter(filepath=p),
            "expanding": lambda p: P.ExpandingBloomFilter(filepath=p), "rotating": lambda p: P.RotatingBloomFilter(filepath=p, max_queue_size=3)}[kind]
    o1, o2 = mk(), mk()
    for i in range(rng.randint(1, 6)):
        o1.add(f"first-{i}")
    for i in range(rng.randint(7, 12)):
        o2.add(f"second-{i}")
    b1, b2 = bytes(o1), bytes(o2)
    how = rng.choice(["relative path, two working directories", "symbolic link re-pointed"])
    case.desc = {"kind": kind, "situation": how}
    sc = bl.Scratch(ctx, case)
    cwd0 = os.getcwd()
    try:
        d1, d2 = os.path.join(sc.dir, "one", "state"), os.path.join(sc.dir, "two", "state")
        os.makedirs(d1), os.makedirs(d2)
        if how.startswith("relative"):
            spelling = os.path.join("state", "f.bin")
            os.chdir(os.path.dirname(d1))
            o1.export(spelling)
            r1 = load(spelling)
            os.chdir(os.path.dirname(d2))
            o2.export(spelling)
            r2 = load(spelling)
        else:
            link = os.path.join(sc.dir, "current")
            spelling = os.path.join(link, "f.bin")
            os.symlink(d1, link)
            o1.export(spelling)
            r1 = load(spelling)
            os.unlink(link)
            os.symlink(d2, link)
            o2.export(spelling)
            r2 = load(spelling)
        for tag, d, want in (("first", d1, b1), ("second", d2, b2)):
            p = os.path.join(d, "f.bin")
            ctx.check(os.path.exists(p), f"{kind}: nothing was written where the {tag} export ({how}) belongs", path_exists=os.path.exists(p))
            with open(p, "rb") as fh:
                ctx.check(fh.read() == want, f"{kind}: the file of the {tag} export ({how}) does not hold that structure's bytes")
        ctx.check(bytes(r1) == b1 and bytes(r2) == b2, f"{kind}: loading the spelling right after each export ({how}) did not give that export's structure back")
        ctx.count("spellings_that_meant_two_places")
        ctx.count(f"channel.path.{kind}")
        case.nontrivial = True
    finally:
        os.chdir(cwd0)
        sc.cleanup()


# ------------------------------------------------------------------------------- large geometries

def wl_large(ctx, rng, case):
    """the same differential on LARGE structures (default-sized and bigger): buffers, block sizes and offsets that tiny tables never reach"""
    import random as stdrandom

    import probables as P

    kind = ["cuckoo", "counting_cuckoo", "bloom", "counting_bloom", "cms", "expanding"][case.index % 6]
    case.desc = {"kind": "large " + kind}
    ctx.observe("classes", "large-" + kind)
    stdrandom.seed(rng.getrandbits(32))
    keys = [f"big-{case.index}-{i}" for i in range(rng.randint(200, 1500))]
    sc = bl.Scratch(ctx, case)
    try:
        if kind in ("cuckoo", "counting_cuckoo"):
            cls = P.CountingCuckooFilter if kind == "counting_cuckoo" else P.CuckooFilter
            cap = rng.choice([10000, 12000, 16385, 20000, 33000])
            bsz = rng.choice([1, 2, 3, 4, 4, 5, 6, 7])
            s = cls(capacity=cap, bucket_size=bsz, max_swaps=50)
            for kk in keys:
                s.add(kk)
                if kind == "counting_cuckoo" and rng.random() < 0.3:
                    s.add(kk)
            for kk in rng.sample(keys, 40):
                s.remove(kk)
            if rng.random() < 0.5:
                s.expand()
                case.op("expand")
            case.desc.update(capacity=s.capacity, bucket_size=bsz, slots=s.capacity * bsz)
            ctx.maximum("largest_cuckoo_table_slots", s.capacity * bsz)
            data = bytes(s)
            p = sc.path("big")
            s.export(p)
            with open(p, "rb") as fh:
                ctx.check(fh.read() == data, f"large {kind}: file export and bytes() differ")

            def table(o):
                if kind == "counting_cuckoo":
                    return [[(b.finger, b.count) for b in bucket] for bucket in o.buckets]
                return [[int(x) for x in bucket] for bucket in o.buckets]

            acc = [("capacity", lambda o: o.capacity), ("bucket_size", lambda o: o.bucket_size), ("max_swaps", lambda o: o.max_swaps),
                   ("elements_added", lambda o: o.elements_added), ("load_factor()", lambda o: o.load_factor()), ("buckets", table)]
            for lname, ld in (("frombytes", lambda: cls.frombytes(data)), ("filepath", lambda: cls(filepath=p))):
                t = ld()
                compare(ctx, s, t, acc, MEMBER_Q, rng.sample(keys, 60) + ["never-added"], f"large {kind} via {lname}")
                ctx.check(bytes(t) == data, f"large {kind}: re-export after loading via {lname} differs from the original export")
        elif kind in ("bloom", "counting_bloom"):
            cls = P.CountingBloomFilter if kind == "counting_bloom" else P.BloomFilter
            est, rate = rng.choice([(5000, 0.01), (20000, 0.05), (100000, 0.01), (3000, 1e-6)]) if kind == "bloom" else rng.choice([(2000, 0.01), (5000, 0.05)])
            if kind == "bloom" and rng.random() < 0.3:
                est, rate = rng.choice([(300000, 0.01), (70000, 0.01)])
            if rng.random() < 0.35:
                # an array whose length is an exact multiple of a power-of-two block size (512 bytes .. 64 KiB): no remainder after the last block
                est, rate = gen.aligned_geometry(rng, counting=(kind == "counting_bloom"), max_len=270000)[:2]
                ctx.count("large_block_aligned_arrays")
            s = cls(est, rate)
            for kk in keys:
                s.add(kk)
            if kind == "counting_bloom":
                bl.dense_fill(rng, [[s]], s.number_bits, s.number_hashes, share=0.5)
            if kind == "bloom":
                bl.dense_fill(rng, [[s]], s.number_bits, s.number_hashes, share=0.8)  # nearly every byte of the large array carries a bit
            case.desc.update(est=est, rate=rate, bits=s.number_bits)
            data = bytes(s)
            hx = s.export_hex()
            p = sc.path("big")
            s.export(p)
            for lname, ld in (("frombytes", lambda: cls.frombytes(data)), ("filepath", lambda: cls(filepath=p)), ("hex_string", lambda: cls(hex_string=hx))):
                t = ld()
                compare(ctx, s, t, [a for a in BLOOM_ACC if a[0] != "str"], MEMBER_Q, rng.sample(keys, 40) + ["never-added"], f"large {kind} via {lname}")
                ctx.check(bytes(t) == data, f"large {kind}: re-export after loading via {lname} differs")
        elif kind == "cms":
            cls = rng.choice([P.CountMinSketch, P.CountMeanSketch, P.CountMeanMinSketch])
            s = cls(width=rng.choice([5000, 20000]), depth=rng.randint(4, 8))
            for kk in keys:
                s.add(kk, rng.randint(1, 9))
            data = bytes(s)
            p = sc.path("big")
            s.export(p)
            acc = [("width", lambda o: o.width), ("depth", lambda o: o.depth), ("elements_added", lambda o: o.elements_added), ("query_type", lambda o: o.query_type)]
            for lname, ld in (("frombytes", lambda: cls.frombytes(data)), ("filepath", lambda: cls(filepath=p))):
                t = ld()
                compare(ctx, s, t, acc, [("check", lambda o, k: o.check(k))], rng.sample(keys, 60) + ["never-added"], f"large {cls.__name__} via {lname}")
                ctx.check(bytes(t) == data, f"large {cls.__name__}: re-export after loading via {lname} differs")
        else:
            rotating = rng.random() < 0.5
            cls = P.RotatingBloomFilter if rotating else P.ExpandingBloomFilter
            extra = {"max_queue_size": 3} if rotating else {}
            s = cls(est_elements=rng.choice([100, 400]), false_positive_rate=0.01, **extra)
            for kk in keys:
                s.add(kk)
            data = bytes(s)
            p = sc.path("big")
            s.export(p)
            acc = [("expansions", lambda o: o.expansions), ("elements_added", lambda o: o.elements_added), ("estimated_elements", lambda o: o.estimated_elements)]
            for lname, ld in (("frombytes", lambda: cls.frombytes(data, **extra)), ("filepath", lambda: cls(filepath=p, **extra))):
                t = ld()
                compare(ctx, s, t, acc, MEMBER_Q, rng.sample(keys, 60) + ["never-added"], f"large {cls.__name__} via {lname}")
                ctx.check(bytes(t) == data, f"large {cls.__name__}: re-export after loading via {lname} differs")
        ctx.count("large_structures_compared")
        case.nontrivial = True
    finally:
        sc.cleanup()


PROP = Prop(
    "C05",
    "exploration",
    rule=("bloom: BloomFilter (states incl. results of union/intersection, reloads, clears) and CountingBloomFilter (incl. saturated cells); ondisk: "
          "BloomFilterOnDisk; expanding: Expanding / Rotating filters after growth, rotation, push, pop; sketch: the five count-min classes incl. cells "
          "pinned at the int32 limits; cuckoo: plain and counting cuckoo filters after evictions / removals, sized by bytes or by error rate, incl. keys "
          "whose fingerprint equals the empty-slot marker; large: default-sized and bigger structures of every family (cuckoo tables up to ~260 000 slots, after an expansion). Every class is exported through all its channels and loaded through its own class. "
          "Every case is non-trivial (one state, 2-4 loaders); distinct by hash of (parameters, operations)."),
    workloads=[
        Workload("bloom", wl_bloom, quick=500, thorough=120000),
        Workload("ondisk", wl_ondisk, quick=200, thorough=15000),
        Workload("expanding", wl_expanding, quick=400, thorough=30000),
        Workload("sketch", wl_sketch, quick=600, thorough=120000),
        Workload("cuckoo", wl_cuckoo, quick=600, thorough=120000),
        Workload("large", wl_large, quick=18, thorough=600),
        Workload("spellings", wl_spellings, quick=28, thorough=700),
    ],
    assumptions=["what the format does not store is re-supplied: hash function, cuckoo fingerprint width (setter or error rate) and expansion settings, rotating queue limit, "
                 "heavy-hitter / threshold parameters; confidence / error rate of a sketch sized that way are not compared",
                 "rates the format stores as 32-bit floats are compared after narrowing",
                 "a Bloom union whose array is completely set (element count -1) is not exported (no property claims that state is exportable)"],
    required=["reload_comparisons", "payload_comparisons", "large_structures_compared", "saturated_states", "sketch_states_with_over_removal", "states_after_growth_or_rotation", "cases_with_zero_fingerprint_key",
              "states_with_partially_filled_buckets", "channel.hex_string", "channel.filepath", "channel.frombytes", "channel.load_error_rate", "channel.ondisk_path"],
)
