"""C13 - intersection, Jaccard index and operand compatibility rules.

Monitor shape: pairwise algebra.  Intersection / Jaccard are recomputed independently from the operands' exported arrays;
compatibility is decided from the public geometry and hash strategy; operands are snapshotted before and after every call.
"""
import os

from .. import bl, gen, refimpl
from ..core import Prop, Workload


def snap(o, path=None):
    """observable state of an operand: exported bytes (+ raw backing file for on-disk filters)"""
    s = [bytes(o)]
    if path is not None:
        with open(path, "rb") as fh:
            s.append(fh.read())
    return s


def popcount(bs):
    return sum(bin(b).count("1") for b in bs)


def wl_bloom_pairs(ctx, rng, case):
    import probables as P

    keys = gen.universe(rng, rng.randint(2, 18))
    est, rate, m, k = gen.bloom_geometry(rng)
    hname, hf = gen.pick_hash(rng, keys)
    compat_kind = rng.choice(["same", "same", "same", "other_geometry", "other_geometry", "other_hash", "identical", "both_empty", "coincident"])
    est2, rate2, m2, k2, hname2, hf2 = est, rate, m, k, hname, hf
    if compat_kind == "coincident":
        # two DIFFERENT requests (est_elements, rate) that derive the same bits and hashes: compatible operands, in either order
        pair = gen.same_geometry_pair(rng)
        if pair:
            est, rate, est2, rate2, (m, k) = pair
            m2, k2 = m, k
            if rng.random() < 0.5:
                est, rate, est2, rate2 = est2, rate2, est, rate
            ctx.count("coincident_geometry_pairs")
        else:
            compat_kind = "same"
    if compat_kind == "other_geometry":
        for _ in range(50):
            est2, rate2, m2, k2 = gen.bloom_geometry(rng)
            if (m2, k2) != (m, k):
                break
        if rng.random() < 0.5:
            # near twins: a different number of bits that rounds up to the SAME number of bytes, same number of hashes
            for _ in range(30):
                tw = gen.near_twin(est, rate, m, k)
                if tw:
                    est2, rate2, m2, k2 = tw[0], rate, tw[1], k
                    ctx.count("near_twin_geometry_pairs")
                    break
                est, rate, m, k = gen.bloom_geometry(rng)
    elif compat_kind == "other_hash":
        kinds = ["default_fnv_1a", "default_md5", "default_sha256", "decorated_int_sha512", "decorated_bytes_blake2b"]
        a, b = rng.sample(kinds, 2)
        hname, hf = gen.pick_hash(rng, keys, kind=a)
        hname2, hf2 = gen.pick_hash(rng, keys, kind=b)
        if k >= 2 and rng.random() < 0.5:
            # two strategies that AGREE on part of the probe key's hashes: same first value only, or same everywhere except the last
            # value the filter uses - still different hash functions (they differ on the library's probe key at the filter's depth)
            mode = rng.choice(["first_only", "all_but_last"])
            hname2, hf2 = f"{hname}+{mode}", gen.DerivedHash(hf, mode, depth_at=k)
            if rng.random() < 0.5:
                hname, hf, hname2, hf2 = hname2, hf2, hname, hf
            ctx.count("hash_pairs_sharing_part_of_the_probe_hashes")
    if case.index % 100 == 13:
        # a few LARGE pairs: bit arrays of 80 KiB .. 350 KiB (beyond any block / chunk / page size a set operation might work in)
        from .. import refimpl as _r

        est, rate = rng.choice([(70000, 0.01), (56000, 0.001), (300000, 0.01), (100000, 0.0001)])
        m, k = _r.bloom_sizing_simple(est, rate)
        compat_kind = "same"
        est2, rate2, m2, k2, hname2, hf2 = est, rate, m, k, hname, hf
        ctx.count("large_bloom_pairs_beyond_64KiB")
    aligned = case.index % 20 == 9
    if aligned:
        # bit arrays whose length is an exact multiple of a power-of-two block size (512 bytes .. 64 KiB), filled densely
        est, rate, m, k = gen.aligned_geometry(rng, max_len=140000)
        compat_kind = "same"
        est2, rate2, m2, k2, hname2, hf2 = est, rate, m, k, hname, hf
        ctx.count("block_aligned_bloom_pairs")
    if case.index % 20 == 3 and compat_kind in ("same", "identical", "both_empty", "other_geometry"):
        # both operands share a strategy that is written for TEXT keys only (whatever key the library probes a strategy with, a
        # strategy is the same as itself); the universe is text only
        keys = [k for k in keys if isinstance(k, str)] or ["text-key"]
        hname = hname2 = "decorated_text_only"
        hf = hf2 = gen.text_only_strategy()
        ctx.count("pairs_sharing_a_text_only_strategy")
    disk = (rng.random() < 0.3, rng.random() < 0.3)
    if case.index % 25 == 6:
        # est_elements given as a non-integral number (the constructor accepts any Number > 0).  Such filters cannot be exported (the
        # footer holds an integer), so this corner has its own compact check on the bit arrays themselves.
        from .. import refimpl as _r

        for _ in range(40):
            est_f = est + rng.choice([0.2, 0.5, 0.75, 0.999])
            mkf = _r.bloom_sizing_simple(est_f, rate)
            if mkf and mkf[1] >= 1:
                break
        else:
            return
        A, B = P.BloomFilter(est_f, rate, **bl.kw_hash(hf)), P.BloomFilter(est_f, rate, **bl.kw_hash(hf))
        ka = [rng.choice(keys) for _ in range(rng.randint(1, 8))]
        kb = [rng.choice(keys) for _ in range(rng.randint(1, 8))]
        for x in ka:
            A.add(x)
        for x in kb:
            B.add(x)
        case.desc = {"kind": "bloom", "compat": "same", "a": (est_f, rate, hname), "fractional_est_elements": True}
        sa, sb = bl.bits_of(A), bl.bits_of(B)
        for first, second, tag in ((A, B, "a,b"), (B, A, "b,a")):
            i, u, j = first.intersection(second), first.union(second), first.jaccard_index(second)
            ctx.check(i is not None and u is not None and j is not None, "a set operation on two filters built from the same (non-integral) request returned None")
            ctx.check((i.number_bits, i.number_hashes) == mkf and (u.number_bits, u.number_hashes) == mkf, "the result of a set operation has another geometry than its operands (non-integral est_elements)",
                      inter=(i.number_bits, i.number_hashes), union=(u.number_bits, u.number_hashes), operands=mkf)
            ctx.check(bl.bits_of(i) == bytes(x & y for x, y in zip(sa, sb)), "intersection is not the AND of the operands' bit arrays (non-integral est_elements)")
            ctx.check(bl.bits_of(u) == bytes(x | y for x, y in zip(sa, sb)), "union is not the OR of the operands' bit arrays (non-integral est_elements)")
            for x in set(ka) & set(kb):
                ctx.check(i.check(x), "the intersection does not report a key both operands report (non-integral est_elements)", key=x)
            both = sum(bin(x & y).count("1") for x, y in zip(sa, sb))
            either = sum(bin(x | y).count("1") for x, y in zip(sa, sb))
            ctx.check(abs(j - (both / either if either else 1.0)) < 1e-12, "Jaccard index is not |A and B| / |A or B| (non-integral est_elements)", got=j)
            ctx.check(bl.bits_of(A) == sa and bl.bits_of(B) == sb, "a set operation modified an operand (non-integral est_elements)")
        ctx.count("fractional_est_operand_pairs")
        ctx.count("compatible_pairs_checked")
        case.nontrivial = True
        return
    case.desc = {"kind": "bloom", "compat": compat_kind, "a": (est, rate, hname), "b": (est2, rate2, hname2), "on_disk": disk}
    ctx.observe("pair_kinds", compat_kind)
    ctx.observe("operand_placement", str(disk))
    sc = bl.Scratch(ctx, case)
    objs = []
    try:
        pa = sc.path("a") if disk[0] else None
        pb = sc.path("b") if disk[1] else None
        if compat_kind == "both_empty":
            A0, B0 = P.BloomFilter(est, rate, **bl.kw_hash(hf)), P.BloomFilter(est2, rate2, **bl.kw_hash(hf2))
        else:
            # operands in REACHABLE states: fed by add, or results of earlier unions / intersections (element count is then an
            # estimate, possibly 0 with bits set), reloaded, cleared and re-fed
            A0, da = bl.reachable_bloom(P, rng, est, rate, hf, keys)
            if compat_kind == "identical":
                B0, db = P.BloomFilter.frombytes(bytes(A0), **bl.kw_hash(hf)), [("copy-of-a",)]
            else:
                B0, db = bl.reachable_bloom(P, rng, est2, rate2, hf2, keys)
                if rng.random() < 0.3 and compat_kind == "same":
                    # make b a derivative of a (chained set operations)
                    B0 = A0.intersection(B0) if rng.random() < 0.5 else A0.union(B0)
                    db = db + [("combined-with-a",)]
                    if B0 is None or B0.elements_added < 0:
                        B0, db = bl.reachable_bloom(P, rng, est2, rate2, hf2, keys)
            if (m > 8 * 30000 or aligned) and (m2, k2) == (m, k) and A0.elements_added >= 0 and B0.elements_added >= 0:
                bl.dense_fill(rng, [[A0], [B0]], m, k)  # large arrays: most bytes carry a bit in each operand, so AND and OR are dense too
                ctx.count("large_pairs_filled_densely")
            case.op("state_a", da)
            case.op("state_b", db)
            for d in da + db:
                ctx.count(f"state_op.{d[0]}")
        if pa:
            A0.export(pa)
            A = P.BloomFilterOnDisk(pa, **bl.kw_hash(hf))
        else:
            A = A0
        objs.append(A)
        subclassed = rng.random() < 0.15 and B0.elements_added >= 0
        if pb:
            B0.export(pb)
            B = P.BloomFilterOnDisk(pb, **bl.kw_hash(hf2)) if not subclassed else type("ArchivedBloom", (P.BloomFilterOnDisk,), {"label": "b"})(pb, **bl.kw_hash(hf2))
        elif subclassed:
            # an application's own SUBCLASS of the filter (a label, a context manager, ...) is an operand like any other
            B = type("LabelledBloom", (P.BloomFilter,), {"label": "b"}).frombytes(bytes(B0), **bl.kw_hash(hf2))
        else:
            B = B0
        if subclassed:
            ctx.count("operands_that_are_instances_of_a_subclass")
        objs.append(B)
        if A.elements_added == 0 and any(bl.bits_of(A)) or B.elements_added == 0 and any(bl.bits_of(B)):
            ctx.count("operands_with_zero_count_but_bits_set")
        compatible = (A.number_bits, A.number_hashes) == (B.number_bits, B.number_hashes) and compat_kind != "other_hash"
        sa, sb = snap(A, pa), snap(B, pb)
        ba, bb = bl.bits_of(A), bl.bits_of(B)
        results = {}
        for name in ("intersection", "union", "jaccard_index"):
            results[name] = (getattr(A, name)(B), getattr(B, name)(A))
            ctx.check(snap(A, pa) == sa and snap(B, pb) == sb, f"{name} modified an operand", operation=name)
            ctx.count("immutability_checks")
        if not compatible:
            for name, (r1, r2) in results.items():
                ctx.check(r1 is None and r2 is None, f"{name} of incompatible operands ({compat_kind}) did not return None", got=(repr(r1)[:60], repr(r2)[:60]))
            ctx.count("incompatible_pairs_checked")
        else:
            i1, i2 = results["intersection"]
            ctx.check(i1 is not None and i2 is not None, "intersection of compatible operands returned None")
            want = bytes(x & y for x, y in zip(ba, bb))
            ctx.check(bl.bits_of(i1) == want and bl.bits_of(i2) == want, "intersection is not the AND of the operands' bit arrays", got=bl.bits_of(i1), want=want)
            for key in keys:
                if A.check(key) and B.check(key):
                    ctx.check(i1.check(key) and i2.check(key), "intersection does not report a key both operands report", key=key)
            j1, j2 = results["jaccard_index"]
            cu = popcount(bytes(x | y for x, y in zip(ba, bb)))
            ci = popcount(want)
            wantj = 1.0 if cu == 0 else ci / cu
            ctx.check(j1 is not None and abs(j1 - wantj) <= 1e-12, "Jaccard index is not |A and B| / |A or B|", got=j1, want=wantj, inter=ci, union=cu)
            ctx.check(j1 == j2, "Jaccard index is not symmetric", ab=j1, ba=j2)
            ctx.check(0.0 <= j1 <= 1.0, "Jaccard index outside [0,1]", got=j1)
            if ba == bb:
                ctx.check(j1 == 1.0, "Jaccard index of identical operands is not 1.0", got=j1)
                ctx.count("identical_pairs_checked")
            ctx.check(A.jaccard_index(A) == 1.0, "Jaccard index of a filter with itself is not 1.0")
            ctx.count("compatible_pairs_checked")
            # the result owns its storage: writing to it must not reach an operand
            u1 = results["union"][0]
            for res in (i1, u1):
                if res is not None and res.elements_added >= 0:
                    res.add("only-in-the-result")
                    ctx.check(snap(A, pa) == sa and snap(B, pb) == sb, "adding to the result of a set operation changed an operand (shared storage)")
                    ctx.count("aliasing_checks")
        # an on-disk operand whose mapping changed through a REFUSED add_alt (too few hashes: some bits are written, then it raises):
        # set operations must see the bits that check() sees
        if pa is not None and compatible and k >= 2:
            try:
                A.add_alt(A.hashes("refused-key")[: rng.randint(1, k - 1)])
            except Exception:
                ctx.count("refused_addalt_on_disk_operand")
            ba2 = bl.bits_of(A)
            want2 = bytes(x & y for x, y in zip(ba2, bb))
            i3 = A.intersection(B)
            ctx.check(i3 is not None and bl.bits_of(i3) == want2, "intersection after a refused add_alt on an on-disk operand is not the AND of the operands' CURRENT bit arrays")
            cu2 = popcount(bytes(x | y for x, y in zip(ba2, bb)))
            j3 = A.jaccard_index(B)
            ctx.check(abs(j3 - (1.0 if cu2 == 0 else popcount(want2) / cu2)) <= 1e-12, "Jaccard index after a refused add_alt on an on-disk operand ignores bits that check() sees", got=j3)
            sa, ba = snap(A, pa), ba2
        # a filter as operand of ITSELF: the result is a new filter with the same positions, and it owns its storage
        import gc

        for name in ("union", "intersection"):
            r = getattr(A, name)(A)
            ctx.check(r is not None and r is not A and bl.bits_of(r) == ba, f"{name} of a filter with itself is not a new filter with the same positions")
            if r.elements_added >= 0:
                r.add("only-in-the-self-result")
                ctx.check(snap(A, pa) == sa, f"adding to the result of a.{name}(a) changed a (shared storage)")
                r.clear()
                ctx.check(snap(A, pa) == sa, f"clearing the result of a.{name}(a) changed a (shared storage)")
            del r
            gc.collect()
            ctx.check(snap(A, pa) == sa and all(A.check(kx) for kx in keys if kx in (case.desc.get("_added_a") or [])),
                      f"a is no longer usable after the result of a.{name}(a) was dropped")
            ctx.count("self_operand_checks")
        # ---- two on-disk handles whose PATHS are equal but whose files are not (the name was taken over by a newer file of the same
        # geometry - write-then-rename - while the older handle stayed open): what counts is what each handle holds
        if pa is not None and compatible and rng.random() < 0.5:
            newer = P.BloomFilter(est, rate, **bl.kw_hash(hf))
            for kx in rng.sample(keys, min(len(keys), 3)):
                newer.add(kx)
            newer.add("only-in-the-newer-file")
            tmp = sc.path("published")
            newer.export(tmp)
            os.replace(tmp, pa)
            A2 = P.BloomFilterOnDisk(pa, **bl.kw_hash(hf))
            objs.append(A2)
            b1, b2 = bl.bits_of(newer), ba
            cu = popcount(bytes(x | y for x, y in zip(b1, b2)))
            wantj = 1.0 if cu == 0 else popcount(bytes(x & y for x, y in zip(b1, b2))) / cu
            for tag, j in (("older.jaccard_index(newer)", A.jaccard_index(A2)), ("newer.jaccard_index(older)", A2.jaccard_index(A))):
                ctx.check(j is not None and abs(j - wantj) <= 1e-12, f"{tag} of two handles with the same path but different files is not |A and B| / |A or B|", got=j, want=wantj)
            i4 = A.intersection(A2)
            ctx.check(i4 is not None and bl.bits_of(i4) == bytes(x & y for x, y in zip(b1, b2)), "intersection of two handles with the same path but different files is not the AND of what they hold")
            ctx.count("pairs_of_handles_with_one_path_and_two_files")
            sa = None  # (the file behind the name changed: the raw-file part of the snapshot of A no longer applies)
        # foreign operands
        for foreign in (1, "x", None, [1], P.CountMinSketch(width=2, depth=2), P.CuckooFilter(capacity=2)):
            for name in ("intersection", "union", "jaccard_index"):
                try:
                    getattr(A, name)(foreign)
                    ctx.fail(f"{name} accepted a foreign operand of type {type(foreign).__name__}")
                except TypeError:
                    ctx.count("foreign_type_rejections")
        ctx.check(sa is None or snap(A, pa) == sa, "a rejected operation modified the receiver")
        case.nontrivial = True
    finally:
        for o in objs:
            if hasattr(o, "close"):
                try:
                    o.close()
                except Exception:
                    pass
        sc.cleanup()


def wl_counting_pairs(ctx, rng, case):
    import probables as P

    keys = gen.universe(rng, rng.randint(2, 14))
    est, rate, m, k = gen.bloom_geometry(rng, max_bits=3000)
    hname, hf = gen.pick_hash(rng, keys)
    compat_kind = rng.choice(["same", "same", "other_geometry", "other_hash", "identical", "both_empty", "near_limit"])
    est2, rate2, m2, k2, hname2, hf2 = est, rate, m, k, hname, hf
    if compat_kind == "other_geometry":
        for _ in range(50):
            est2, rate2, m2, k2 = gen.bloom_geometry(rng, max_bits=3000)
            if (m2, k2) != (m, k):
                break
    elif compat_kind == "other_hash":
        a, b = rng.sample(["default_fnv_1a", "default_md5", "default_sha256", "decorated_int_sha512"], 2)
        hname, hf = gen.pick_hash(rng, keys, kind=a)
        hname2, hf2 = gen.pick_hash(rng, keys, kind=b)
        if k >= 2 and rng.random() < 0.5:
            mode = rng.choice(["first_only", "all_but_last"])
            hname2, hf2 = f"{hname}+{mode}", gen.DerivedHash(hf, mode, depth_at=k)
            ctx.count("hash_pairs_sharing_part_of_the_probe_hashes")
    case.desc = {"kind": "counting", "compat": compat_kind, "a": (est, rate, hname), "b": (est2, rate2, hname2)}
    ctx.observe("pair_kinds", "counting-" + compat_kind)
    A = P.CountingBloomFilter(est, rate, **bl.kw_hash(hf))
    B = P.CountingBloomFilter(est2, rate2, **bl.kw_hash(hf2))
    if compat_kind != "both_empty":
        big = compat_kind == "near_limit"
        ka = [(rng.choice(keys), rng.choice([1, 2, 5]) if not big else rng.choice([1, 2**31, 2**32 - 2, 2**32 - 1])) for _ in range(rng.randint(0, 8))]
        kb = ka if compat_kind == "identical" else [(rng.choice(keys), rng.choice([1, 3]) if not big else rng.choice([1, 2**31, 2**32 - 2])) for _ in range(rng.randint(0, 8))]
        for x, n in ka:
            A.add(x, n)
        for x, n in kb:
            B.add(x, n)
        if not big:
            # some keys are removed again completely (legitimately): counters they shared with keys that stay must remain non-zero
            for flt, fed in ((A, ka), (B, kb)):
                if flt is B and compat_kind == "identical":
                    continue
                for x, n in rng.sample(fed, min(len(fed), rng.randint(0, 3))):
                    tot = sum(nn for xx, nn in fed if xx == x)
                    if flt.check(x) >= tot and tot > 0 and not any(o[0] == "rm" and o[1] is flt and o[2] == x for o in case.ops):
                        flt.remove(x, tot)
                        case.ops.append(("rm", flt, x))
                        ctx.count("counting_operands_with_complete_removals")
            case.ops[:] = [o for o in case.ops if o[0] != "rm"]
            if compat_kind == "identical":
                B = P.CountingBloomFilter.frombytes(bytes(A), **bl.kw_hash(hf))
        case.op("fed", ka, kb)
    compatible = (A.number_bits, A.number_hashes) == (B.number_bits, B.number_hashes) and compat_kind != "other_hash"
    sa, sb = bytes(A), bytes(B)
    ca, cb = bl.cells_of(A), bl.cells_of(B)
    results = {}
    for name in ("intersection", "union", "jaccard_index"):
        results[name] = (getattr(A, name)(B), getattr(B, name)(A))
        ctx.check(bytes(A) == sa and bytes(B) == sb, f"counting {name} modified an operand")
        ctx.count("immutability_checks")
    if not compatible:
        for name, (r1, r2) in results.items():
            ctx.check(r1 is None and r2 is None, f"counting {name} of incompatible operands ({compat_kind}) did not return None")
        ctx.count("incompatible_pairs_checked")
    else:
        i1, i2 = results["intersection"]
        ctx.check(i1 is not None and i2 is not None, "counting intersection of compatible operands returned None")
        for res in (i1, i2):
            cells = bl.cells_of(res)
            bad = [i for i, (x, y, z) in enumerate(zip(ca, cb, cells)) if (z > 0) != (x > 0 and y > 0)]
            ctx.check(not bad, "counting intersection is non-zero at other positions than those non-zero in both operands", positions=bad[:10])
        for key in keys:
            if A.check(key) and B.check(key):
                ctx.check(i1.check(key) and i2.check(key), "counting intersection does not report a key both operands report", key=key)
        j1, j2 = results["jaccard_index"]
        cu = sum(1 for x, y in zip(ca, cb) if x > 0 or y > 0)
        ci = sum(1 for x, y in zip(ca, cb) if x > 0 and y > 0)
        wantj = 1.0 if cu == 0 else ci / cu
        ctx.check(j1 is not None and abs(j1 - wantj) <= 1e-12 and j1 == j2 and 0.0 <= j1 <= 1.0, "counting Jaccard index wrong / asymmetric / out of range", got=(j1, j2), want=wantj)
        if [x > 0 for x in ca] == [y > 0 for y in cb]:
            ctx.check(j1 == 1.0, "counting Jaccard index of operands with identical positions is not 1.0", got=j1)
        ctx.count("compatible_pairs_checked")
    for foreign in (1, "x", None, P.CountMinSketch(width=2, depth=2)):
        for name in ("intersection", "union", "jaccard_index"):
            try:
                getattr(A, name)(foreign)
                ctx.fail(f"counting {name} accepted a foreign operand of type {type(foreign).__name__}")
            except TypeError:
                ctx.count("foreign_type_rejections")
    case.nontrivial = True


def wl_sketch_pairs(ctx, rng, case):
    import probables as P
    from probables.exceptions import CountMinSketchError

    keys = gen.universe(rng, rng.randint(2, 10))
    classes = [P.CountMinSketch, P.CountMeanSketch, P.CountMeanMinSketch]
    ca, cb = rng.choice(classes), rng.choice(classes)
    w, d = rng.randint(2, 9), rng.randint(1, 5)
    kind = rng.choice(["same", "other_width", "other_depth", "other_hash", "same_cell_count"])
    w2, d2 = w, d
    if kind == "same_cell_count":
        # another geometry with the SAME number of counters (transposed, or another factorisation of width*depth)
        alts = [(w * d // dd, dd) for dd in range(1, w * d + 1) if (w * d) % dd == 0 and dd != d and dd <= 12 and w * d // dd >= 2]  # width 1 is outside the mean-min query's domain
        if not alts:
            w, d = 6, 2
            alts = [(4, 3), (3, 4), (2, 6), (12, 1)]
        w2, d2 = rng.choice(alts)
    hname, hf = gen.pick_hash(rng, keys)
    hname2, hf2 = hname, hf
    if kind == "other_width":
        w2 = w + rng.randint(1, 3)
    elif kind == "other_depth":
        d2 = d + rng.randint(1, 2)
    elif kind == "other_hash":
        a, b = rng.sample(["default_fnv_1a", "default_md5", "default_sha256", "decorated_int_sha512", "decorated_bytes_blake2b"], 2)
        hname, hf = gen.pick_hash(rng, keys, kind=a)
        hname2, hf2 = gen.pick_hash(rng, keys, kind=b)
        if d >= 2 and rng.random() < 0.5:
            mode = rng.choice(["first_only", "all_but_last"])
            hname2, hf2 = f"{hname}+{mode}", gen.DerivedHash(hf, mode, depth_at=d)
            ctx.count("hash_pairs_sharing_part_of_the_probe_hashes")
    case.desc = {"kind": "sketch", "compat": kind, "a": (ca.__name__, w, d, hname), "b": (cb.__name__, w2, d2, hname2)}
    ctx.observe("pair_kinds", "sketch-" + kind)
    A = ca(width=w, depth=d, **bl.kw_hash(hf))
    B = cb(width=w2, depth=d2, **bl.kw_hash(hf2))
    for _ in range(rng.randint(0, 8)):
        A.add(rng.choice(keys), rng.randint(1, 4))
        B.add(rng.choice(keys), rng.randint(1, 4))
    sa, sb = bytes(A), bytes(B)
    if kind == "same":
        A.join(B)
        ctx.check(bytes(B) == sb, "join modified its argument")
        ctx.count("compatible_pairs_checked")
    else:
        try:
            A.join(B)
            ctx.fail(f"join of mismatched sketches ({kind}) did not raise CountMinSketchError")
        except CountMinSketchError:
            ctx.count("incompatible_pairs_checked")
        ctx.check(bytes(A) == sa and bytes(B) == sb, "a refused join modified an operand")
    for foreign in (1, "x", None, P.BloomFilter(10, 0.05)):
        try:
            A.join(foreign)
            ctx.fail(f"join accepted a foreign operand of type {type(foreign).__name__}")
        except TypeError:
            ctx.count("foreign_type_rejections")
    ctx.count("immutability_checks")
    case.nontrivial = True


PROP = Prop(
    "C13",
    "exploration",
    rule=("pairs of plain/on-disk Bloom filters, of counting Bloom filters and of sketches; each pair is drawn as compatible (same geometry and hash), "
          "identical, both empty, of different geometry, or of different hash strategy (two different strategies of the zoo); intersection / union / "
          "Jaccard are called in both orders, operands snapshotted around every call, foreign operands tried. Every case is non-trivial; distinct by hash of (parameters, fed keys)."),
    workloads=[
        Workload("bloom_pairs", wl_bloom_pairs, quick=900, thorough=240000),
        Workload("counting_pairs", wl_counting_pairs, quick=500, thorough=160000),
        Workload("sketch_pairs", wl_sketch_pairs, quick=500, thorough=120000),
    ],
    assumptions=["compatibility is decided from the public number_bits / number_hashes and from whether the same strategy object was supplied; "
                 "'different hash function' pairs are two different strategies of the zoo (they differ on every key, including the library's probe key)",
                 "mixing a counting with a plain Bloom filter is outside the claim and not generated"],
    required=["compatible_pairs_checked", "incompatible_pairs_checked", "immutability_checks", "foreign_type_rejections", "identical_pairs_checked",
              "hash_pairs_sharing_part_of_the_probe_hashes", "self_operand_checks", "aliasing_checks", "block_aligned_bloom_pairs"],
)
