"""C04 - the quotient filter is an exact set of 32-bit hashes under add/remove/resize/merge.

Monitor shape: history + set model, full probe after EVERY call (check_alt of every universe hash, sorted get_hashes(),
elements_added, size), an enumeration of every subset of a 16-hash universe for q=3 with every add/remove transition out of it,
and termination observed as a budget of executed library lines (sys.monitoring), not as wall-clock time.
"""
import copy
import os

from .. import gen, linehook, refimpl
from ..core import Prop, Workload, Retire

K1 = "K1-qf-remove-on-full-single-cluster"


def mk(q, quot, rem):
    return (quot << (32 - q)) | rem


def build_universe(q, rng, per_quot=3, extra=6):
    r = 32 - q
    rems = [0, 1, (1 << r) - 1, 2, 7, (1 << (r - 1))]
    U = []
    for quot in range(1 << q):
        for rem in rems[:per_quot]:
            U.append(mk(q, quot, rem))
    for _ in range(extra):
        U.append(rng.getrandbits(32))
    return sorted(set(U))


def cluster_count_full(S, q):
    """number of clusters of the canonical layout of a COMPLETELY FULL table holding S (quotient size q)"""
    n = 1 << q
    r = 32 - q
    c = [0] * n
    for h in S:
        c[h >> r] += 1
    carry = 0
    starts = set()
    for rnd in range(3):
        for i in range(n):
            if rnd == 2 and carry == 0 and c[i] > 0:
                starts.add(i)
            carry = max(0, carry + c[i] - 1)
    return len(starts)


class Guard:
    """runs library calls either plainly (fast mode, under the case's wall-clock watchdog) or under a line budget (deciding mode)"""

    def __init__(self, ctx, mode):
        self.ctx = ctx
        self.mode = mode

    def __call__(self, limit, fn, *a, **kw):
        if self.mode == "budget":
            with linehook.budget(limit):
                r = fn(*a, **kw)
            self.ctx.maximum("max_library_lines_in_one_call", linehook.lines_counted())
            self.ctx.count("calls_under_line_budget")
            return r
        return fn(*a, **kw)


def line_limit(size, n=1):
    return 4000 * size * max(1, n)


def probe(ctx, g, f, S, U, q_expected, where, auto=False):
    size = f.size
    lim = line_limit(size)
    for h in ctx.alternating(U):
        ctx.counters["oracle_evaluations"] += 1
        got = g(lim, f.check_alt, h)
        if got != (h in S):
            ctx.fail(f"check_alt reports a hash {'absent although it was added and not removed' if h in S else 'present although it is not in the set'} {where}",
                     hash=h, quotient=h >> (32 - f.quotient), n_stored=len(S))
    got = g(lim * 4, f.get_hashes)
    if sorted(got) != sorted(S):
        ctx.fail(f"get_hashes() is not exactly the set of stored hashes {where}", got=sorted(got)[:40], want=sorted(S)[:40],
                 duplicates=len(got) - len(set(got)))
    ctx.check(f.elements_added == len(S), f"elements_added differs from the number of stored hashes {where}", got=f.elements_added, want=len(S))
    ctx.check(f.size == (1 << f.quotient) == f.num_elements, f"size is not 2^quotient {where}", size=f.size, quotient=f.quotient)
    if q_expected is not None:
        if auto:
            ctx.check(f.quotient >= q_expected, f"quotient below the requested one {where}", got=f.quotient, want=q_expected)
        else:
            ctx.check(f.quotient == q_expected, f"quotient differs from the expected one {where}", got=f.quotient, want=q_expected)
    ctx.count("full_probes")


def do_remove(ctx, g, f, S, h, where):
    if h in S and len(S) == f.size and cluster_count_full(S, f.quotient) == 1:
        # the mechanism of the former known finding K1 (fixed in /repo, see known_findings.json): executed and judged like any other removal
        ctx.count("removals_on_full_single_cluster_tables")
    g(line_limit(f.size), f.remove_alt, h)
    S.discard(h)


def run_guarded(ctx, case, body):
    """body(mode) executes the deterministic case; fast first, and only if the wall-clock watchdog fires again under the line budget"""
    if ctx.replaying:
        body("budget")
        return
    try:
        with linehook.watchdog(30.0):
            body("fast")
    except linehook.WatchdogFired:
        ctx.count("watchdog_fired_rerun_under_line_budget")
        del case.ops[:]
        body("budget")


# ---------------------------------------------------------------------------------- random histories

def wl_history(ctx, rng, case):
    import probables as P
    from probables.exceptions import QuotientFilterError

    q = rng.choice([3, 3, 3, 4, 4, 5, 6])
    auto = rng.random() < 0.4
    seed = rng.getrandbits(32)
    use_budget = rng.random() < 0.1  # a share of the histories runs entirely under the line budget
    case.desc = {"quotient": q, "auto_expand": auto}
    ctx.observe("quotients", q)

    def body(mode):
        import random

        r2 = random.Random(seed)
        g = Guard(ctx, "budget" if use_budget else mode)
        U = build_universe(q, r2, per_quot=r2.choice([2, 3, 4]))
        table = {f"key{i}": h for i, h in enumerate(U)}
        hf = gen.SimpleTable("qf", table, bits=32)
        auto_now = auto
        f = P.QuotientFilter(quotient=q, auto_expand=auto, hash_function=hf)
        keys = list(table)
        S = set()
        q_now = q
        merged_in = []
        nops = r2.randint(5, 60)
        dense = r2.random() < 0.5  # dense histories fill the table (runs, clusters, wrap-around)
        for step in range(nops):
            r = r2.random()
            size = f.size
            if r < (0.62 if dense else 0.5):
                h = r2.choice(U)
                via_key = r2.random() < 0.3
                case.op("add", h)
                try:
                    if via_key:
                        g(line_limit(size, 4), f.add, [k for k, v in table.items() if v == h][0])
                    else:
                        g(line_limit(size, 4), f.add_alt, h)
                    S.add(h)
                except QuotientFilterError:
                    ctx.count("refused_adds")
                    if h in S:
                        ctx.fail(f"add of a hash that is already stored was refused (step {step})", hash=h)
                ctx.count("op.add")
            elif r < 0.85:
                h = r2.choice(sorted(S)) if S and r2.random() < 0.8 else r2.choice(U)
                case.op("remove", h)
                if r2.random() < 0.3 and h in table.values():
                    k = [k for k, v in table.items() if v == h][0]
                    if h in S and len(S) == f.size and cluster_count_full(S, f.quotient) == 1:
                        ctx.count("removals_on_full_single_cluster_tables")
                    g(line_limit(size), f.remove, k)
                    S.discard(h)
                else:
                    do_remove(ctx, g, f, S, h, f"step {step}")
                ctx.count("op.remove")
            elif r < 0.92:
                q2 = r2.choice([None, f.quotient + 1, f.quotient - 1, f.quotient, 3, 4, 5, 6, 7, 2, 32])
                case.op("resize", q2)
                before = (sorted(g(line_limit(size) * 4, f.get_hashes)), f.quotient, f.elements_added) if len(S) < f.size or True else None
                try:
                    g(line_limit(max(size, 256), len(S) + 2), f.resize, q2)
                    want_q = f.quotient if q2 is None else q2
                    if q2 is None:
                        ctx.check(f.quotient >= before[1] + 1 if auto_now else f.quotient == before[1] + 1, f"resize() did not double the filter (step {step})", got=f.quotient, before=before[1])
                    q_now = f.quotient
                    probe(ctx, g, f, S, U, want_q, f"after resize({q2}) at step {step}", auto=auto_now)
                    ctx.count("resizes")
                except QuotientFilterError:
                    ctx.count("refused_resizes")
                    after = (sorted(g(line_limit(f.size) * 4, f.get_hashes)), f.quotient, f.elements_added)
                    ctx.check(after == before, f"a refused resize({q2}) changed the filter (step {step})", before=before[1:], after=after[1:])
            elif r < 0.97 and merged_in and r2.random() < 0.4:
                # a filter that was merged in earlier is merged in AGAIN (it has not changed; this one may have lost some of its hashes since)
                other, S2 = r2.choice(merged_in)
                case.op("merge-again", sorted(S2))
                try:
                    g(line_limit(max(size, 64), len(S2) + 2), f.merge, other)
                    S |= S2
                    ctx.count("merges_of_a_filter_that_was_merged_in_before")
                except QuotientFilterError:
                    got = set(g(line_limit(f.size) * 4, f.get_hashes))
                    ctx.check(S <= got <= (S | S2), f"a repeated merge that raised left hashes outside [before, before U other] (step {step})")
                    S = got
            elif r < 0.97:
                q3 = r2.choice([3, 4, 5, f.quotient, f.quotient])
                other = P.QuotientFilter(quotient=q3, auto_expand=True, hash_function=hf)
                S2 = set(r2.sample(U, r2.randint(0, min(len(U), 6))))
                for h in S2:
                    other.add_alt(h)
                case.op("merge", sorted(S2))
                try:
                    g(line_limit(max(size, 64), len(S2) + 2), f.merge, other)
                    S |= S2
                    ctx.count("merges")
                except QuotientFilterError:
                    ctx.count("refused_merges")
                    got = set(g(line_limit(f.size) * 4, f.get_hashes))
                    ctx.check(S <= got <= (S | S2), f"a merge that raised left hashes outside [before, before U other] (step {step})")
                    S = got
                ctx.check(sorted(other.get_hashes()) == sorted(S2), f"merge modified its argument (step {step})")
                merged_in.append((other, set(S2)))
            else:
                # the settings are public and writable in any state: another load limit (also below the present load, and 1 or beyond:
                # the filter then fills to its last slot), or growing switched on / off for the table as it stands
                if r2.random() < 0.6:
                    mlf = r2.choice([0.5, 0.85, 0.99, 0.3, 0.05, 1.0, 1.5])
                    case.op("max_load_factor", mlf)
                    f.max_load_factor = mlf
                else:
                    auto_now = not auto_now
                    case.op("auto_expand", auto_now)
                    f.auto_expand = auto_now
                    ctx.count("auto_expand_switched_in_mid_history")
            probe(ctx, g, f, S, U, None, f"after step {step} ({case.ops[-1]}), quotient {f.quotient}, {len(S)} stored")
            for o, So in merged_in[-2:]:
                # a filter that was merged in earlier must not be affected by what happens to the receiver afterwards (no shared storage)
                ctx.check(sorted(o.get_hashes()) == sorted(So) and o.elements_added == len(So),
                          f"a filter merged in earlier changed while the receiver evolved (step {step})", got=o.elements_added, want=len(So))
                ctx.count("aliasing_checks")
            ctx.maximum("max_load", len(S) / f.size)
            if len(S) == f.size:
                ctx.count("probes_on_completely_full_table")
        case.nontrivial = len(case.ops) >= 5

    run_guarded(ctx, case, body)


# ---------------------------------------------------------------------------------- exhaustive q=3

def q3_universe():
    return [mk(3, quot, rem) for quot in range(8) for rem in (0, 5)]


def wl_exhaustive_q3(ctx, rng, case):
    """all subsets (<= 8 elements, the table size) of a 16-hash universe (8 quotients x 2 remainders) for q=3:
    case.index selects the 256 subsets whose bitmask has high byte == index; from each one every add/remove transition is executed"""
    import probables as P
    from probables.exceptions import QuotientFilterError

    U = q3_universe()
    hi = case.index
    if ctx.tier == "quick" and hi % 8 != ctx.seed % 8:
        # quick tier: one eighth of the chunks (which eighth depends on the seed); thorough: all 256 chunks = every subset
        case.desc = {"chunk": hi, "skipped_in_quick_tier": True}
        return
    case.desc = {"chunk": hi, "kind": "all subsets with bitmask high byte == chunk"}

    def body(mode):
        g = Guard(ctx, mode)
        states = transitions = 0
        for lo in range(256):
            mask = (hi << 8) | lo
            S0 = {U[i] for i in range(16) if mask >> i & 1}
            if len(S0) > 8:
                continue
            f0 = P.QuotientFilter(quotient=3, auto_expand=False)
            for h in sorted(S0, key=lambda x: (x * 2654435761) % 2**32):  # a fixed pseudo-random insertion order
                g(line_limit(8), f0.add_alt, h)
            probe(ctx, g, f0, S0, U, 3, f"after building the set with mask {mask:#06x}")
            states += 1
            for h in U:
                # --- add transition
                f = copy.deepcopy(f0)
                S = set(S0)
                try:
                    g(line_limit(8), f.add_alt, h)
                    S.add(h)
                except QuotientFilterError:
                    ctx.count("refused_adds")
                    ctx.check(len(S0) == 8 and h not in S0, "an add was refused although the table is not full or the hash is stored", mask=mask, hash=h)
                probe(ctx, g, f, S, U, 3, f"after add_alt({h}) from the set with mask {mask:#06x}")
                transitions += 1
                # --- remove transition
                f = copy.deepcopy(f0)
                S = set(S0)
                do_remove(ctx, g, f, S, h, "")
                probe(ctx, g, f, S, U, 3, f"after remove_alt({h}) from the set with mask {mask:#06x}")
                transitions += 1
                # --- one more step from the layout reached by the removal
                h2 = U[(U.index(h) * 7 + 3) % 16]
                if h2 in S:
                    do_remove(ctx, g, f, S, h2, "")
                else:
                    try:
                        g(line_limit(8), f.add_alt, h2)
                        S.add(h2)
                    except QuotientFilterError:
                        pass
                probe(ctx, g, f, S, U, 3, f"after a second step ({h2}) following remove_alt({h}) from mask {mask:#06x}")
                transitions += 1
        ctx.count("bfs.states", states)
        ctx.count("bfs.transitions", transitions)
        case.op("states", states, "transitions", transitions)
        case.nontrivial = states > 0

    run_guarded(ctx, case, body)


# ---------------------------------------------------------------------------------- resize / merge sweep

def wl_resize_merge(ctx, rng, case):
    import probables as P
    from probables.exceptions import QuotientFilterError

    q = rng.choice([3, 4, 5, 6])
    auto = rng.random() < 0.5
    seed = rng.getrandbits(32)
    case.desc = {"quotient": q, "auto_expand": auto, "kind": "resize/merge"}

    def body(mode):
        import random

        r2 = random.Random(seed)
        g = Guard(ctx, mode)
        U = build_universe(q, r2, per_quot=2, extra=10)
        f = P.QuotientFilter(quotient=q, auto_expand=auto)
        S = set()
        fill = r2.randint(0, min(len(U), (1 << q) - 1 if not auto else (1 << q)))
        for h in r2.sample(U, fill):
            try:
                g(line_limit(f.size, 4), f.add_alt, h)
                S.add(h)
            except QuotientFilterError:
                pass
        case.op("filled", len(S))
        probe(ctx, g, f, S, U, None, "after filling")
        for step in range(r2.randint(1, 6)):
            if r2.random() < 0.6:
                q2 = r2.choice([f.quotient - 1, f.quotient + 1, f.quotient + 2, 3, 4, 5, 6, 7, 8])
                case.op("resize", q2)
                valid = 3 <= q2 <= 31 and len(S) < (1 << q2)
                before_q = f.quotient
                try:
                    g(line_limit(max(f.size, 1 << max(3, min(q2, 9))), len(S) + 2), f.resize, q2)
                    ctx.check(valid, f"resize({q2}) accepted although {len(S)} hashes cannot fit or the quotient is invalid")
                    probe(ctx, g, f, S, U, q2, f"after resize({q2})", auto=auto)
                    ctx.count("resizes")
                    if q2 < before_q:
                        ctx.count("shrinks")
                except QuotientFilterError:
                    ctx.count("refused_resizes")
                    ctx.check(not valid or auto, f"a valid resize({q2}) with {len(S)} stored hashes was refused", stored=len(S))
                    probe(ctx, g, f, S, U, before_q, f"after refused resize({q2})")
            else:
                q3 = r2.choice([3, 4, 5, 6])
                other = P.QuotientFilter(quotient=q3, auto_expand=True)
                S2 = set(r2.sample(U, r2.randint(0, min(len(U), 10))))
                for h in S2:
                    other.add_alt(h)
                full_other = len(S2) == other.size
                case.op("merge", len(S2))
                try:
                    g(line_limit(max(f.size, 64), len(S2) + 2), f.merge, other)
                    S |= S2
                    ctx.count("merges")
                except QuotientFilterError:
                    ctx.count("refused_merges")
                    got = set(g(line_limit(f.size) * 4, f.get_hashes))
                    ctx.check(S <= got <= (S | S2), "a merge that raised left hashes outside [before, before U other]")
                    S = got
                probe(ctx, g, f, S, U, None, f"after merge of {len(S2)} hashes (quotient {q3})")
        case.nontrivial = True

    run_guarded(ctx, case, body)


def wl_full_tables(ctx, rng, case):
    """completely full tables (auto_expand off): probe, get_hashes, resize, merge-source and removals on full tables with SEVERAL clusters"""
    import probables as P
    from probables.exceptions import QuotientFilterError

    q = rng.choice([3, 3, 4])
    seed = rng.getrandbits(32)
    case.desc = {"quotient": q, "kind": "completely full table"}

    def body(mode):
        import random

        r2 = random.Random(seed)
        g = Guard(ctx, mode)
        n = 1 << q
        r = 32 - q
        # choose per-quotient counts summing to n
        style = r2.choice(["one_each", "random", "two_clusters", "single_cluster"])
        if style == "one_each":
            counts = [1] * n
        elif style == "two_clusters":
            counts = [0] * n
            counts[0] = n // 2
            counts[n // 2] = n - n // 2
        elif style == "single_cluster":
            counts = [0] * n
            counts[r2.randrange(n)] = n
        else:
            counts = [0] * n
            for _ in range(n):
                counts[r2.randrange(n)] += 1
        S = set()
        for quot, c in enumerate(counts):
            for j in range(c):
                S.add(mk(q, quot, j * 3 + 1))
        U = sorted(S | {mk(q, quot, 2) for quot in range(n)})
        f = P.QuotientFilter(quotient=q, auto_expand=False)
        order = sorted(S)
        r2.shuffle(order)
        for h in order:
            g(line_limit(n, 4), f.add_alt, h)
        case.op("filled", style, counts)
        ctx.observe("full_table_styles", style)
        probe(ctx, g, f, S, U, q, f"on a completely full table ({style})")
        ctx.count("probes_on_completely_full_table")
        # an add on a full table is refused and changes nothing
        try:
            g(line_limit(n), f.add_alt, mk(q, 0, 2))
            ctx.fail("add on a completely full table was accepted")
        except QuotientFilterError:
            ctx.count("refused_adds")
        probe(ctx, g, f, S, U, q, "after a refused add on a full table")
        # the full table as merge source and as resize source
        tgt = P.QuotientFilter(quotient=q + 1, auto_expand=True)
        g(line_limit(2 * n, n + 2), tgt.merge, f)
        probe(ctx, g, tgt, set(S), U, None, "target of a merge from a completely full table")
        f2 = copy.deepcopy(f)
        g(line_limit(4 * n, n + 2), f2.resize, q + 1)
        probe(ctx, g, f2, set(S), U, q + 1, "after growing a completely full table")
        # removals
        nclusters = cluster_count_full(S, q)
        ctx.observe("clusters_in_full_tables", nclusters)
        for h in r2.sample(sorted(S), min(4, len(S))):
            f3 = copy.deepcopy(f)
            S3 = set(S)
            do_remove(ctx, g, f3, S3, h, "")
            probe(ctx, g, f3, S3, U, q, f"after remove_alt on a completely full table with {nclusters} clusters")
            ctx.count("removals_on_full_multi_cluster_tables" if nclusters > 1 else "removals_on_full_single_cluster_tables")
            h2 = r2.choice(U)
            try:
                g(line_limit(n), f3.add_alt, h2)
                S3.add(h2)
            except QuotientFilterError:
                pass
            probe(ctx, g, f3, S3, U, q, "after re-adding into the freed slot")
        case.nontrivial = True

    run_guarded(ctx, case, body)


def wl_big_full_tables(ctx, rng, case):
    """completely full tables of 256 .. 2048 slots (slot indices beyond one byte and beyond CPython's shared small integers): one cluster that
    wraps the whole table, started at a low or a high slot, or two clusters; removal of the element at the cluster start and of others"""
    import probables as P
    from probables.exceptions import QuotientFilterError

    q = [8, 9, 9, 10, 11, 9][case.index % 6]
    seed = rng.getrandbits(32)
    case.desc = {"quotient": q, "kind": "completely full big table"}
    ctx.observe("quotients", q)

    def body(mode):
        import random

        r2 = random.Random(seed)
        g = Guard(ctx, mode)
        n = 1 << q
        style = r2.choice(["single_cluster_high_start", "single_cluster_high_start", "single_cluster_low_start", "two_clusters"])
        counts = {}
        if style == "two_clusters":
            a = r2.randrange(n)
            counts = {a: n // 2, (a + n // 2) % n: n - n // 2}
        else:
            start = r2.randrange(257, n) if style.endswith("high_start") and n > 257 else r2.randrange(0, min(n, 200))
            counts = {start: n}
        S = set()
        for quot, c in counts.items():
            for j in range(c):
                S.add(mk(q, quot, j * 3 + 1))
        f = P.QuotientFilter(quotient=q, auto_expand=False)
        order = sorted(S)
        r2.shuffle(order)
        for h in order:
            g(line_limit(n, 4), f.add_alt, h)
        case.op("filled", style, {str(k): v for k, v in counts.items()})
        ctx.check(f.elements_added == n and sorted(g(line_limit(n, 8), f.get_hashes)) == sorted(S), "a completely filled big table does not hold exactly the hashes given to it")
        try:
            g(line_limit(n), f.add_alt, mk(q, 0, 2))
            ctx.fail("add on a completely full table was accepted")
        except QuotientFilterError:
            ctx.count("refused_adds")
        firsts = [mk(q, quot, 1) for quot in counts]  # the element stored at each cluster start
        for h in firsts + r2.sample(sorted(S), 2):
            f3 = copy.deepcopy(f)
            S3 = set(S)
            do_remove(ctx, g, f3, S3, h, "")
            ctx.counters["oracle_evaluations"] += 1
            got = sorted(g(line_limit(n, 8), f3.get_hashes))
            if got != sorted(S3) or f3.elements_added != len(S3):
                ctx.fail(f"after remove_alt on a completely full table of {n} slots ({style}) the stored hashes are not the set minus the removed one",
                         removed=h, missing=sorted(S3 - set(got))[:5], extra=sorted(set(got) - S3)[:5], elements_added=f3.elements_added)
            ctx.check(not g(line_limit(n), f3.check_alt, h), "a removed hash is still reported", removed=h)
            for h2 in r2.sample(sorted(S3), 12):
                ctx.check(g(line_limit(n), f3.check_alt, h2), f"a hash that was added and not removed is reported absent after a removal on a full table of {n} slots", hash=h2)
            g(line_limit(n), f3.add_alt, h)
            ctx.check(g(line_limit(n), f3.check_alt, h) and f3.elements_added == n, "re-adding into the freed slot failed")
            ctx.count("removals_on_big_full_tables")
        case.nontrivial = True

    run_guarded(ctx, case, body)


def wl_long_clusters(ctx, rng, case):
    """ONE cluster of 100 .. 300 hashes (one or two quotients, remainders added in descending / ascending / random order, so that single
    insertions shift more than a hundred slots) in tables of 256 .. 2048 slots that may or may not grow: membership, the hash list and the
    element count after every insertion, then removals from the front, the middle and the end of the cluster"""
    import probables as P
    from probables.exceptions import QuotientFilterError

    q = rng.choice([8, 8, 9, 10, 11])
    auto = rng.random() < 0.6
    n = rng.choice([100, 129, 140, 200, 300])
    r = 32 - q
    quot = rng.choice([0, 5, (1 << q) - 1, (1 << q) - 60, rng.randrange(1 << q)])
    rems = rng.sample(range(1, min(1 << r, 100000)), n)
    order = rng.choice(["descending", "ascending", "random"])
    rems = sorted(rems, reverse=(order == "descending")) if order != "random" else rems
    case.desc = {"quotient": q, "auto_expand": auto, "cluster": n, "order": order, "kind": "one long cluster"}
    f = P.QuotientFilter(quotient=q, auto_expand=auto)
    S = set()
    for i, rem in enumerate(rems):
        h = mk(q, quot if i % 7 else (quot + 1) % (1 << q), rem)
        try:
            f.add_alt(h)
            S.add(h)
        except QuotientFilterError:
            break
        ctx.counters["oracle_evaluations"] += 1
        if f.elements_added != len(S):
            ctx.fail(f"elements_added differs from the number of stored hashes after insertion #{i + 1} into one long cluster (quotient now {f.quotient})", got=f.elements_added, want=len(S))
        if not f.check_alt(h):
            ctx.fail(f"a hash is reported absent right after it was added to a long cluster (insertion #{i + 1})", hash=h)
        if i % 40 == 39 or i == len(rems) - 1:
            ctx.check(sorted(f.get_hashes()) == sorted(S), f"get_hashes() is not the set of stored hashes after {i + 1} insertions into one long cluster")
    for h in rng.sample(sorted(S), min(len(S), 30)) + [min(S), max(S)]:
        if h in S:
            f.remove_alt(h)
            S.discard(h)
            ctx.check(f.elements_added == len(S) and not f.check_alt(h), "removal from a long cluster left the hash or the count behind", hash=h, got=f.elements_added, want=len(S))
    ctx.check(sorted(f.get_hashes()) == sorted(S), "get_hashes() is not the set of stored hashes after removals from one long cluster")
    ctx.count("long_cluster_cases")
    ctx.count("full_probes")
    case.nontrivial = True


def wl_wide_quotient(ctx, rng, case):
    """quotients around the remainder-width boundaries (remainder 16 / 17 bits: the slot array changes its element type), a few hundred hashes"""
    import probables as P
    from probables.exceptions import QuotientFilterError

    q = [15, 16, 17, 12, 10][case.index % 5]
    seed = rng.getrandbits(32)
    case.desc = {"quotient": q, "kind": "wide quotient"}
    ctx.observe("quotients", q)

    def body(mode):
        import random

        r2 = random.Random(seed)
        g = Guard(ctx, mode)
        r = 32 - q
        f = P.QuotientFilter(quotient=q, auto_expand=False)
        S = set()
        # clustered hashes: a handful of quotients (incl. the last ones: wrap-around) x many remainders incl. the extreme ones
        quots = [0, 1, (1 << q) - 1, (1 << q) - 2] + [r2.randrange(1 << q) for _ in range(6)]
        U = []
        for quot in quots:
            for rem in [0, 1, (1 << r) - 1, (1 << r) - 2, 1 << (r - 1)] + [r2.randrange(1 << r) for _ in range(8)]:
                U.append(mk(q, quot, rem))
        U = sorted(set(U))
        for step in range(r2.randint(60, 160)):
            h = r2.choice(U)
            if h in S and r2.random() < 0.35:
                f.remove_alt(h)
                S.discard(h)
                case.op("remove", h)
            else:
                f.add_alt(h)
                S.add(h)
                case.op("add", h)
            # cheap per-step probe: a sample of the universe; full probe every 40 steps
            for h2 in r2.sample(U, 12):
                ctx.counters["oracle_evaluations"] += 1
                if f.check_alt(h2) != (h2 in S):
                    ctx.fail(f"check_alt wrong on a quotient-{q} filter after step {step}", hash=h2, stored=h2 in S)
            ctx.check(f.elements_added == len(S), f"elements_added differs from the number of stored hashes (quotient {q}, step {step})", got=f.elements_added, want=len(S))
            if step % 40 == 39:
                probe(ctx, g, f, S, U, q, f"on a quotient-{q} filter after step {step}")
        probe(ctx, g, f, S, U, q, f"on a quotient-{q} filter at the end")
        f.resize(q + 1)
        probe(ctx, g, f, S, U, q + 1, f"after resizing a quotient-{q} filter")
        ctx.count("wide_quotient_cases")
        case.nontrivial = True

    run_guarded(ctx, case, body)


def finish(cov, merged, tier):
    c = merged["counters"]
    cov["states"] = int(c.get("bfs.states", 0))
    cov["transitions"] = int(c.get("bfs.transitions", 0))
    cov["exhaustive_note"] = ("workload exhaustive_q3 enumerates every subset (<= 8 elements) of a 16-hash universe for quotient 3 "
                              "(39 203 sets) in the thorough tier and one eighth of them in the quick tier")


PROP = Prop(
    "C04",
    "exploration",
    rule=("history: random interleavings of add / remove (by hash and by key) / resize (valid and invalid) / merge / max_load_factor on q=3..6 over a universe of "
          "every quotient x 2-4 remainders + random 32-bit hashes; resize_merge: fills then resizes up/down and merges filters of other quotients; full_tables: "
          "completely full tables of four shapes; exhaustive_q3: every subset of a 16-hash universe with every add and remove transition out of it plus one further step. "
          "Full probe after every call. Non-trivial = >= 5 operations (history) / always (others); distinct by hash of (parameters, operations)."),
    workloads=[
        Workload("full_tables", wl_full_tables, quick=80, thorough=3000),
        Workload("resize_merge", wl_resize_merge, quick=200, thorough=10000),
        Workload("wide_quotient", wl_wide_quotient, quick=5, thorough=100),
        Workload("long_clusters", wl_long_clusters, quick=12, thorough=240),
        Workload("big_full_tables", wl_big_full_tables, quick=12, thorough=240),
        Workload("history", wl_history, quick=500, thorough=40000),
        Workload("exhaustive_q3", wl_exhaustive_q3, quick=256, thorough=256, exhaustive=True),
    ],
    assumptions=["model is a Python set of 32-bit ints; hashes >= 2^32 are outside the domain",
                 "termination: a call may execute at most 4000 x table size library lines (x elements for resize/merge), >= 50x the largest count observed on correct runs; "
                 "the wall-clock watchdog only triggers a re-run under that budget",
                 "removals on completely full single-cluster tables (the former known finding K1, fixed in /repo) are executed and counted separately"],
    finish=finish,
    required=["full_probes", "bfs.states", "bfs.transitions", "resizes", "merges", "probes_on_completely_full_table", "calls_under_line_budget",
              "removals_on_full_multi_cluster_tables", "removals_on_full_single_cluster_tables", "shrinks", "wide_quotient_cases"],
)
