"""C01 - Bloom filters never report an added key as absent.

Monitor shape: history + shadow set.  After EVERY call all keys of the shadow set are probed through check() and `in`;
the exported bit array(s) must be monotone (bits never disappear) between clear()s.
"""
import os

from .. import bl, gen, refimpl
from ..core import Prop, Workload


def probe(ctx, f, shadow, where, case):
    # the order of the look-ups alternates (insertion order / reverse): an answer must not depend on which key was queried just before
    order = shadow if ctx.counters["full_probes"] % 2 == 0 else list(reversed(shadow))
    for k in order:
        ctx.counters["oracle_evaluations"] += 2
        if not f.check(k):
            ctx.fail(f"added key reported absent by check() {where}", key=k, n_keys=len(shadow))
        if k not in f:
            ctx.fail(f"added key reported absent by `in` {where}", key=k, n_keys=len(shadow))
    if shadow and hasattr(f, "hashes"):
        k = shadow[len(shadow) // 2]
        arg, cp = bl.alt_arg(ctx, f.hashes(k))
        if not f.check_alt(arg):
            ctx.fail(f"added key reported absent by check_alt(hashes(key)) {where}", key=k)
        bl.arg_unchanged(ctx, arg, cp, "check_alt")
        # "hash once, use on several filters": a hash list computed for a DEEPER filter is a prefix-compatible argument
        if not getattr(f.hash_function, "depth_dependent", False) and not f.check_alt(f.hashes(k, f.number_hashes + 1 + len(shadow) % 5)):
            ctx.fail(f"added key reported absent by check_alt() given a longer (deeper) hash list {where}", key=k)
    ctx.count("full_probes")


# ------------------------------------------------------------------ plain / on-disk

def _open_disk(P, path, est, rate, hf):
    return P.BloomFilterOnDisk(path, est, rate, **bl.kw_hash(hf))


def wl_plain(ctx, rng, case):
    """BloomFilter and BloomFilterOnDisk: add/add_alt/union/reload through every channel/close+reopen/clear"""
    import probables as P

    est, rate, m, k = gen.bloom_geometry(rng, small=rng.random() < 0.8)
    keys = gen.universe(rng, rng.randint(2, 24))
    hname, hf = gen.pick_hash(rng, keys)
    if rng.random() < 0.07:
        hname, hf = "hand_depth_dependent", gen.DepthDependent()  # values depend on the requested depth: fine for a filter used on its own
    on_disk = rng.random() < 0.4
    sc = bl.Scratch(ctx, case)
    cwd0 = os.getcwd()
    case.desc = {"est": est, "rate": rate, "bits": m, "hashes": k, "hash": hname, "start_on_disk": on_disk, "n_keys": len(keys)}
    ctx.observe("bits_mod_8", m % 8)
    ctx.observe("hash_kinds", hname)
    ctx.maximum("max_number_hashes", k)
    ctx.maximum("max_bits", m)
    events = 0
    f = None
    others = []
    try:
        if on_disk:
            path = sc.path("disk")
            f = _open_disk(P, path, est, rate, hf)
        else:
            path = None
            f = P.BloomFilter(est, rate, **bl.kw_hash(hf))
        ctx.check(f.number_bits == m and f.number_hashes == k, "geometry differs from the independent sizing", got=(f.number_bits, f.number_hashes), want=(m, k))
        shadow = []
        keybuf = bytearray()
        prev_bits = bl.bits_of(f)
        nops = rng.randint(4, 40)
        quiet = rng.choice([0, 0, 0, 2, 3, 5])
        for step in range(nops):
            if not quiet:
                bl.noise_reads(ctx, rng, f, keys)
            r = rng.random()
            cleared = False
            if r < 0.55 or not shadow:
                key = rng.choice(keys)
                if isinstance(key, bytes) and hf is None and rng.random() < 0.3:
                    # a bytes key handed over in a mutable buffer that the caller refills in place before the next call
                    # (two or three keys back to back, no other call in between - a read loop)
                    batch = [key] + [k2 for k2 in rng.sample(keys, min(len(keys), 4)) if isinstance(k2, bytes) and k2 != key][:2]
                    case.op("add-from-reused-buffer", batch)
                    view = keybuf if rng.random() < 0.6 else None
                    for kb in batch:
                        keybuf[:] = kb
                        f.add(view if view is not None else memoryview(keybuf))
                        if kb not in shadow:
                            shadow.append(kb)
                    ctx.count("adds_from_a_reused_buffer", len(batch))
                elif rng.random() < 0.12:
                    # hash a BATCH of keys first, insert afterwards (with a look-up in between): each list handed out by hashes() stays what
                    # it was while other keys are hashed
                    batch = [key] + rng.sample(keys, min(len(keys), rng.randint(1, 3)))
                    case.op("hash-batch-then-add_alt", batch)
                    held = [(kb, f.hashes(kb)) for kb in batch]
                    copies = [list(h) for _, h in held]
                    f.check(rng.choice(keys))
                    for (kb, h), cp in zip(held, copies):
                        ctx.check(list(h) == cp, "a hash list handed out earlier changed while other keys were hashed", key=kb)
                        f.add_alt(h)
                        if kb not in shadow:
                            shadow.append(kb)
                    ctx.count("batches_hashed_first_and_added_afterwards")
                elif rng.random() < 0.8:
                    case.op("add", key)
                    f.add(key)
                else:
                    case.op("add_alt", key)
                    arg, cp = bl.alt_arg(ctx, f.hashes(key) if rng.random() < 0.5 or getattr(hf, "depth_dependent", False) else f.hashes(key, f.number_hashes + rng.randint(1, 6)))
                    f.add_alt(arg)
                    bl.arg_unchanged(ctx, arg, cp, "add_alt")
                if key not in shadow:
                    shadow.append(key)
                ctx.count("op.add")
            elif r < 0.65 and rng.random() < 0.12 and f.elements_added >= 0:
                # this filter is exported to a path, ANOTHER filter of the same geometry is exported over it, then this one again (no
                # addition in between): what is loaded from the path afterwards must report every key of this filter
                tgt = sc.path("shared-target")
                other = P.BloomFilter(est, rate, **bl.kw_hash(hf))
                for k2 in rng.sample(keys, min(len(keys), 2)):
                    other.add(k2 if rng.random() < 0.5 else "only-in-the-other-filter")
                case.op("export, foreign export over it, export again")
                f.export(tgt)
                other.export(tgt)
                f.export(tgt)
                back = P.BloomFilter(filepath=tgt, **bl.kw_hash(hf))
                for kk in shadow:
                    if not back.check(kk):
                        ctx.fail("a key is reported absent by the filter loaded from a path this filter was just exported to (another filter had been exported there in between)", key=kk)
                ctx.check(bytes(back) == bytes(f) if not isinstance(f, P.BloomFilterOnDisk) else back.elements_added == f.elements_added, "the file at the export target is not this filter's current export")
                ctx.count("exports_over_a_foreign_export")
                continue
            elif r < 0.65 and rng.random() < 0.25 and gen.near_twin(est, rate, m, k):
                # a partner of NEARLY the same geometry (other number of bits, same number of bytes and hashes): the union is refused (None);
                # if it is carried out it is a union like any other and must report the keys of both operands
                e2, m2 = gen.near_twin(est, rate, m, k)
                g = P.BloomFilter(e2, rate, **bl.kw_hash(hf))
                keys2 = [rng.choice(keys) for _ in range(rng.randint(1, 5))]
                for k2 in keys2:
                    g.add(k2)
                swap = rng.random() < 0.5
                case.op("union-with-near-twin", e2, m2, "swapped" if swap else "")
                res = g.union(f) if swap else f.union(g)
                if res is None:
                    ctx.count("near_twin_unions_refused")
                else:
                    for kk in list(shadow) + keys2:
                        if not res.check(kk):
                            ctx.fail(f"the union with a filter of {m2} bits (this one has {m}) was carried out and does not report a key an operand held", key=kk)
                continue
            elif r < 0.65:
                # union with a second filter of the same geometry (in memory or on disk, either side)
                keys2 = [rng.choice(keys) for _ in range(rng.randint(0, 5))]
                second_disk = rng.random() < 0.4
                if second_disk:
                    g = _open_disk(P, sc.path("second"), est, rate, hf)
                    others.append(g)
                else:
                    g = P.BloomFilter(est, rate, **bl.kw_hash(hf))
                for k2 in keys2:
                    g.add(k2)
                swap = rng.random() < 0.5
                case.op("union", keys2, "second_on_disk" if second_disk else "second_in_memory", "swapped" if swap else "")
                res = g.union(f) if swap else f.union(g)
                ctx.check(res is not None, "union of two same-geometry same-hash filters returned None")
                # the result becomes the object under test
                if isinstance(f, P.BloomFilterOnDisk):
                    f.close()
                f = res
                path = None
                for k2 in keys2:
                    if k2 not in shadow:
                        shadow.append(k2)
                events += 1
                ctx.count("op.union")
                prev_bits = None  # bits of the union are compared against both operands by C12; here: keys
            elif r < 0.9 and f.elements_added < 0:
                # a union whose bit array is completely set carries the documented sentinel -1 as element count and cannot be
                # exported (struct 'Q'); no property claims exportability of that state, so no reload is attempted from it
                case.op("skip-reload-of-saturated-union")
                ctx.count("saturated_union_not_exported")
            elif r < 0.9:
                # export + load through a channel
                chan = rng.choice(["bytes", "path", "fileobj", "hex", "to_disk", "realfile", "pathlib"])
                if isinstance(f, P.BloomFilterOnDisk):
                    chan = rng.choice(["bytes", "export_path", "reopen_same_cwd", "reopen_other_cwd", "reopen_relative", "to_memory_file", "export_and_continue",
                                       "export_and_continue"])
                case.op("reload", chan)
                ctx.count(f"reload.{chan}")
                ctx.count("op.reload")
                events += 1
                if chan in ("bytes", "path", "fileobj", "realfile", "pathlib") and not isinstance(f, P.BloomFilterOnDisk):
                    data = bl.export_bytes_via(f, chan, sc)
                    if chan in ("path", "pathlib"):
                        p2 = sc.path("load")
                        with open(p2, "wb") as fh:
                            fh.write(data)
                        from pathlib import Path

                        f = P.BloomFilter(filepath=Path(p2) if chan == "pathlib" else p2, **bl.kw_hash(hf))
                    elif chan == "realfile":
                        f = P.BloomFilter.frombytes(memoryview(data), **bl.kw_hash(hf))
                    elif chan == "fileobj":
                        f = P.BloomFilter.frombytes(bytearray(data), **bl.kw_hash(hf))
                    else:
                        f = P.BloomFilter.frombytes(data, **bl.kw_hash(hf))
                elif chan == "hex":
                    f = P.BloomFilter(hex_string=f.export_hex(), **bl.kw_hash(hf))
                elif chan == "to_disk":
                    p2 = sc.path("todisk")
                    f.export(p2)
                    f = P.BloomFilterOnDisk(p2, **bl.kw_hash(hf))
                    path = p2
                elif chan == "bytes":  # on-disk: bytes() is the whole mapped file
                    data = bytes(f)
                    f.close()
                    f = P.BloomFilter.frombytes(data, **bl.kw_hash(hf))
                    path = None
                elif chan == "export_path":
                    p2 = sc.path("copy")
                    f.export(p2)
                    f.close()
                    f = P.BloomFilter(filepath=p2, **bl.kw_hash(hf))
                    path = None
                elif chan == "export_and_continue":
                    # the exporter stays in use after the export; the copy must hold every key too
                    p2 = sc.path("keep")
                    f.export(p2)
                    cp = P.BloomFilter(filepath=p2, **bl.kw_hash(hf))
                    probe(ctx, cp, shadow, f"in the exported copy at step {step}", case)
                elif chan == "to_memory_file":
                    f.close()
                    f = P.BloomFilter(filepath=path, **bl.kw_hash(hf))
                    path = None
                elif chan == "reopen_same_cwd":
                    f.close()
                    os.chdir(os.path.dirname(path))
                    f = P.BloomFilterOnDisk(path, **bl.kw_hash(hf))
                elif chan == "reopen_other_cwd":
                    f.close()
                    os.chdir(sc.other)
                    f = P.BloomFilterOnDisk(path, **bl.kw_hash(hf))
                elif chan == "reopen_relative":
                    f.close()
                    os.chdir(sc.other)
                    f = P.BloomFilterOnDisk(os.path.relpath(path, sc.other), **bl.kw_hash(hf))
                else:
                    raise AssertionError(chan)
                os.chdir(cwd0)
            elif r < 0.93:
                case.op("clear")
                f.clear()
                shadow = []
                cleared = True
                ctx.count("op.clear")
            else:
                # read-only noise between writes
                key = rng.choice(keys)
                case.op("query", key)
                f.check(key)
                f.estimate_elements()
                ctx.count("op.query")
            # ---- oracles after every call - or, in a quarter of the histories, only after every 2nd..5th call with NOTHING reading the
            # filter in between (whatever a call remembers for the next one must still be right when several mutations follow each other)
            if quiet and step % quiet and step != nops - 1:
                if cleared:
                    prev_bits = None
                ctx.count("steps_without_any_read")
                continue
            probe(ctx, f, shadow, f"after step {step} ({case.ops[-1][0]})", case)
            now = bl.bits_of(f)
            if prev_bits is not None and not cleared:
                ctx.check(bl.subset_bits(prev_bits, now), f"a bit set earlier disappeared after step {step} ({case.ops[-1][0]})",
                          before=prev_bits, after=now)
                ctx.count("monotonicity_checks")
            prev_bits = now
        case.nontrivial = len(shadow) >= 2 and events >= 1
    finally:
        os.chdir(cwd0)
        for g in others + [f]:
            if g is not None and hasattr(g, "close"):
                try:
                    g.close()
                except Exception:
                    pass
        sc.cleanup()


# ------------------------------------------------------------------ expanding

def sub_bits(data):
    """bit arrays of the sub-filters, parsed independently from the export stream"""
    return [b for _, b in refimpl.parse_expanding(data)["filters"]]


def wl_expanding(ctx, rng, case):
    """ExpandingBloomFilter: add/forced add/add_alt/push/reload; every key ever added stays present through growth"""
    import probables as P

    est, rate, m, k = gen.bloom_geometry(rng, small=True)
    est = rng.choice([1, 2, 3, 4, 5, 8, est])
    mk = refimpl.bloom_sizing_simple(est, rate)
    if mk is None or mk[1] < 1:
        est, rate = 4, 0.05
        mk = refimpl.bloom_sizing_simple(est, rate)
    m, k = mk
    keys = gen.universe(rng, rng.randint(3, 40))
    hname, hf = gen.pick_hash(rng, keys)
    if rng.random() < 0.1:
        hname, hf = "hand_generous_depth", gen.GenerousHash(hf or _default_hf(), rng.randint(1, 4))
    sc = bl.Scratch(ctx, case)
    case.desc = {"est": est, "rate": rate, "bits": m, "hashes": k, "hash": hname, "n_keys": len(keys)}
    ctx.observe("bits_mod_8", m % 8)
    ctx.observe("hash_kinds", hname)
    try:
        f = P.ExpandingBloomFilter(est_elements=est, false_positive_rate=rate, **bl.kw_hash(hf))
        shadow = []
        prev = sub_bits(bytes(f))
        reloads = 0
        max_exp = 0
        for step in range(rng.randint(5, 60)):
            bl.noise_reads(ctx, rng, f, keys)
            r = rng.random()
            if r < 0.7 or not shadow:
                key = rng.choice(keys)
                force = rng.random() < 0.15
                if rng.random() < 0.85:
                    case.op("add", key, force)
                    f.add(key, force) if force else f.add(key)
                else:
                    case.op("add_alt", key, force)
                    arg, cp = bl.alt_arg(ctx, (hf or _default_hf())(key, k + rng.choice([0, 0, 1, 4])))
                    f.add_alt(arg, force)
                    bl.arg_unchanged(ctx, arg, cp, "add_alt")
                if key not in shadow:
                    shadow.append(key)
                ctx.count("op.add")
            elif r < 0.8:
                case.op("push")
                f.push()
                ctx.count("op.push")
            else:
                chan = rng.choice(["bytes", "path", "fileobj", "realfile"])
                case.op("reload", chan)
                data = bl.export_bytes_via(f, chan, sc)
                if chan == "path":
                    p2 = sc.path("load")
                    with open(p2, "wb") as fh:
                        fh.write(data)
                    f = P.ExpandingBloomFilter(filepath=p2, **bl.kw_hash(hf), **({"est_elements": rng.randint(1, 500), "false_positive_rate": rng.choice([0.3, 0.05, 0.011, 0.001])} if rng.random() < 0.3 else {}))
                else:
                    f = P.ExpandingBloomFilter.frombytes(data, **bl.kw_hash(hf))
                reloads += 1
                ctx.count("op.reload")
                ctx.count(f"reload.{chan}")
            probe(ctx, f, shadow, f"after step {step} ({case.ops[-1][0]}), expansions={f.expansions}", case)
            if shadow:
                kx = shadow[step % len(shadow)]
                ctx.check(f.check_alt((hf or _default_hf())(kx, k)) and f.check_alt((hf or _default_hf())(kx, k + 3)),
                          f"added key reported absent by the expanding filter's check_alt() (exact or deeper hash list) after step {step}", key=kx)
            now = sub_bits(bytes(f))
            ctx.check(len(now) >= len(prev), f"a sub-filter was dropped at step {step}", before=len(prev), after=len(now))
            for i, old in enumerate(prev):
                ctx.check(bl.subset_bits(old, now[i]), f"a bit of sub-filter {i} disappeared at step {step} ({case.ops[-1][0]})")
            ctx.count("monotonicity_checks")
            prev = now
            max_exp = max(max_exp, f.expansions)
        ctx.maximum("max_expansions", max_exp)
        if max_exp:
            ctx.count("cases_with_growth")
        case.nontrivial = len(shadow) >= 2 and (max_exp >= 1 or reloads >= 1)
    finally:
        sc.cleanup()


def _default_hf():
    from probables.hashes import default_fnv_1a

    return default_fnv_1a


def wl_boundary(ctx, rng, case):
    """geometry boundaries: every residue of number_bits mod 8, 1 hash, ~100 hashes; fill past capacity; all channels once"""
    import probables as P

    # enumerate a deterministic list of geometries and take case.index
    geos = []
    for est in (1, 2, 3, 5, 7, 10, 13, 64, 100):
        for rate in (0.5, 0.3, 0.2, 0.1, 0.05, 0.01, 0.001, 1e-6, 1e-12, 1e-30):
            mk = refimpl.bloom_sizing_simple(est, rate)
            if mk and mk[1] >= 1 and mk[0] <= 200000:
                geos.append((est, rate) + mk)
    est, rate, m, k = geos[case.index % len(geos)]
    hname, hf = gen.pick_hash(rng, [], kind=rng.choice(["library_default", "default_fnv_1a", "default_md5", "default_sha256", "decorated_int_sha512",
                                                        "decorated_bytes_blake2b", "hand_mod3", "hand_huge_values"]))
    keys = [f"key-{i}" for i in range(min(3 * est + 3, 40))] + [b"bytes-%d" % i for i in range(4)]
    if hname == "hand_huge_values":
        hname, hf = gen.pick_hash(rng, keys, kind="hand_huge_values")
    case.desc = {"est": est, "rate": rate, "bits": m, "hashes": k, "hash": hname, "kind": "boundary sweep"}
    ctx.observe("bits_mod_8", m % 8)
    ctx.observe("hash_kinds", hname)
    ctx.maximum("max_number_hashes", k)
    ctx.maximum("max_bits", m)
    sc = bl.Scratch(ctx, case)
    f = None
    try:
        f = P.BloomFilter(est, rate, **bl.kw_hash(hf))
        ctx.check((f.number_bits, f.number_hashes) == (m, k), "geometry differs from the independent sizing", got=(f.number_bits, f.number_hashes), want=(m, k))
        shadow = []
        for key in keys:
            f.add(key)
            shadow.append(key)
            probe(ctx, f, shadow, f"after add #{len(shadow)}", case)
        case.op("added", len(keys))
        # every channel in turn, continuing to use the reloaded object
        for chan in ("bytes", "hex", "path", "fileobj", "disk", "disk_bytes"):
            if chan == "bytes":
                f = P.BloomFilter.frombytes(bytes(f), **bl.kw_hash(hf))
            elif chan == "hex":
                f = P.BloomFilter(hex_string=f.export_hex(), **bl.kw_hash(hf))
            elif chan == "path":
                p = sc.path("b")
                f.export(p)
                f = P.BloomFilter(filepath=p, **bl.kw_hash(hf))
            elif chan == "fileobj":
                f = P.BloomFilter.frombytes(bl.export_bytes_via(f, "fileobj", sc), **bl.kw_hash(hf))
            elif chan == "disk":
                p = sc.path("d")
                f.export(p)
                f = P.BloomFilterOnDisk(p, **bl.kw_hash(hf))
            elif chan == "disk_bytes":
                data = bytes(f)
                f.close()
                f = P.BloomFilter.frombytes(data, **bl.kw_hash(hf))
            case.op("reload", chan)
            ctx.count(f"reload.{chan}")
            ctx.check((f.number_bits, f.number_hashes) == (m, k), f"loader ({chan}) derived another geometry", got=(f.number_bits, f.number_hashes), want=(m, k))
            probe(ctx, f, shadow, f"after reload via {chan}", case)
            extra = f"after-{chan}"
            f.add(extra)
            shadow.append(extra)
            probe(ctx, f, shadow, f"after add following reload via {chan}", case)
        case.nontrivial = True
    finally:
        if f is not None and hasattr(f, "close"):
            try:
                f.close()
            except Exception:
                pass
        sc.cleanup()


def wl_many_keys(ctx, rng, case):
    """hundreds of distinct keys through one filter (far more than any small cache holds), among them non-ASCII texts AND their UTF-8 byte
    strings (two different keys for FNV-1a); every key is probed again at the end"""
    import probables as P

    kind = ["plain", "ondisk", "expanding"][case.index % 3]
    hname, hf = gen.pick_hash(rng, [], kind=rng.choice(["library_default", "library_default", "default_fnv_1a", "default_md5", "decorated_int_sha512"]))
    est, rate = rng.choice([(1000, 0.001), (500, 0.01), (2000, 0.0001)])
    sc = bl.Scratch(ctx, case)
    case.desc = {"kind": kind, "hash": hname, "est": est, "rate": rate}
    f = None
    try:
        if kind == "plain":
            f = P.BloomFilter(est, rate, **bl.kw_hash(hf))
        elif kind == "ondisk":
            f = P.BloomFilterOnDisk(sc.path("many"), est, rate, **bl.kw_hash(hf))
        else:
            f = P.ExpandingBloomFilter(est_elements=60, false_positive_rate=rate, **bl.kw_hash(hf))
        special = []
        for t in ("caf\u00e9", "\u043a\u043b\u044e\u0447", "na\u00efve", "\u9375", "\u00fc", "x\u00e9y"):
            pair = [t, t.encode("utf-8")]
            rng.shuffle(pair)
            special.extend(pair)
        shadow = []
        for k in special:
            f.add(k)
            shadow.append(k)
        n_more = rng.randint(300, 700)
        for i in range(n_more):
            k = f"many-{case.index}-{i}" if i % 3 else b"many-%d-%d" % (case.index, i)
            f.add(k)
            if i % 7 == 0:
                f.check(f"probe-{i}")
            shadow.append(k)
        case.op("added", len(shadow))
        probe(ctx, f, shadow, f"after {len(shadow)} distinct keys", case)
        probe(ctx, f, shadow, f"after {len(shadow)} distinct keys (other look-up order)", case)
        ctx.count("many_key_cases")
        case.nontrivial = True
    finally:
        if f is not None and hasattr(f, "close"):
            try:
                f.close()
            except Exception:
                pass
        sc.cleanup()


def wl_rate_types(ctx, rng, case):
    """the false-positive rate given as a float, a decimal.Decimal or a fractions.Fraction (all accepted), for requests whose geometry sits on
    an edge: sized from the full-precision rate it would differ from the geometry of the single-precision rate that every export records.
    Keys added to such a filter stay present through reloads on every channel, unions with a filter of the same request (spelled with
    another type) and - for the expanding filter - growth after a reload"""
    import probables as P

    edge = rng.random() < 0.8
    n, text = rng.choice(gen.f32_edge_requests()) if edge else (rng.choice([200, 333, 1000, 5000]), rng.choice(["0.05", "0.01", "0.001", "0.3"]))
    how, rate = gen.spell_rate(rng, text)
    how2, rate2 = gen.spell_rate(rng, text)
    kind = rng.choice(["BloomFilter", "BloomFilter", "BloomFilterOnDisk", "ExpandingBloomFilter"])
    keys = gen.universe(rng, 24)
    case.desc = {"kind": kind, "est": n, "rate": text, "spelled_as": how, "partner_spelled_as": how2, "geometry_on_the_float32_edge": edge}
    ctx.observe("rate_spellings", how)
    sc = bl.Scratch(ctx, case)
    objs = []

    def present(o, stage):
        for kx in keys:
            ctx.counters["oracle_evaluations"] += 1
            if not o.check(kx):
                ctx.fail(f"added key reported absent {stage} (rate given as {how} {text}, est_elements {n}, {kind})", key=kx)
        ctx.count("full_probes")

    try:
        if kind == "ExpandingBloomFilter":
            est = n if rng.random() < 0.5 else rng.choice([3, 7, 10])
            f = P.ExpandingBloomFilter(est, rate)
            for kx in keys[:12]:
                f.add(kx)
            g = P.ExpandingBloomFilter.frombytes(bytes(f))
            for kx in keys[12:]:
                g.add(kx)
            present(g, "after export, load and further additions")
            p = sc.path("exp")
            g.export(p)
            present(P.ExpandingBloomFilter(filepath=p), "after a second export (file) and load")
        else:
            mk = (lambda r: P.BloomFilterOnDisk(sc.path("rt"), n, r)) if kind == "BloomFilterOnDisk" else (lambda r: P.BloomFilter(n, r))
            f, g = mk(rate), mk(rate2)
            objs += [f, g]
            for kx in keys[:12]:
                f.add(kx)
            for kx in keys[12:]:
                g.add(kx)
            u = f.union(g)
            ctx.check(u is not None, f"union of two filters built from the same request (rate spelled as {how} and as {how2}) returned None")
            present(u, "by the union of two filters of the same request")
            if u.elements_added < 0:
                return  # a completely set array (the documented sentinel): not exportable
            data = bytes(u)
            p = sc.path("u")
            u.export(p)
            for stage, o in (("after frombytes", P.BloomFilter.frombytes(data)), ("after a hex reload", P.BloomFilter(hex_string=u.export_hex())),
                             ("after a file reload", P.BloomFilter(filepath=p)), ("after an on-disk reopen of the export", P.BloomFilterOnDisk(p))):
                objs.append(o)
                present(o, stage)
                u2 = o.union(u)
                ctx.check(u2 is not None, f"a reload ({stage[6:]}) is no longer compatible with the filter it was exported from")
                present(u2, f"by the union of a reload ({stage[6:]}) with its original")
        ctx.count("rate_type_cases")
        if edge:
            ctx.count("rate_type_cases_on_the_float32_edge")
        case.nontrivial = True
    finally:
        for o in objs:
            if hasattr(o, "close"):
                try:
                    o.close()
                except Exception:
                    pass
        sc.cleanup()


def wl_rebind(ctx, rng, case):
    """a path is RE-USED while an earlier on-disk filter on it is still open (`f = BloomFilterOnDisk(p, ...)` assigned twice: the second
    object is built before the first is released): the new filter owns the file's contents from then on.  Whatever the lingering handle
    does when it is finally closed or collected - before or after the new filter is closed - every key added to the NEW filter is present
    when the file is opened again.  (What the lingering handle may do to the recorded element COUNT is not judged here.)"""
    import gc

    import probables as P

    e1, r1, m1, k1 = gen.bloom_geometry(rng, small=rng.random() < 0.7)
    for _ in range(50):
        e2, r2, m2, k2 = gen.bloom_geometry(rng, small=rng.random() < 0.7)
        if (m2, k2) != (m1, k1):
            break
    keys = gen.universe(rng, rng.randint(3, 16))
    order = rng.choice(["new closed first, then the lingering handle", "lingering handle closed first", "lingering handle collected after the new one was closed",
                        "lingering handle released by the assignment itself"])
    case.desc = {"old": (e1, r1, m1, k1), "new": (e2, r2, m2, k2), "order": order, "n_keys": len(keys)}
    sc = bl.Scratch(ctx, case)
    try:
        p = sc.path("rebind")
        f = P.BloomFilterOnDisk(p, e1, r1)
        for kx in keys[: len(keys) // 2]:
            f.add(kx)
        if order.endswith("assignment itself"):
            f = P.BloomFilterOnDisk(p, e2, r2)  # the old object is released right here, after the new one was built
            new = f
            gc.collect()
        else:
            new = P.BloomFilterOnDisk(p, e2, r2)
        for kx in keys:
            new.add(kx)
        for kx in keys:
            ctx.check(new.check(kx), "added key reported absent by the filter that re-used the path", key=kx)
        if order.startswith("new closed first"):
            new.close()
            f.close()
        elif order.startswith("lingering handle closed first"):
            f.close()
            new.close()
        elif order.startswith("lingering handle collected"):
            new.close()
            del f
            gc.collect()
        else:
            new.close()
        for how, o in (("on-disk reopen", P.BloomFilterOnDisk(p)), ("filepath load", P.BloomFilter(filepath=p))):
            ctx.check((o.number_bits, o.number_hashes) == (m2, k2), f"{how} of a re-used path does not have the geometry of the filter that owns it ({order})",
                      got=(o.number_bits, o.number_hashes), new=(m2, k2), old=(m1, k1))
            for kx in keys:
                ctx.counters["oracle_evaluations"] += 1
                if not o.check(kx):
                    ctx.fail(f"added key reported absent after the {how} of a re-used path ({order})", key=kx)
            if hasattr(o, "close"):
                o.close()
        ctx.count("full_probes")
        ctx.count("paths_reused_while_an_earlier_filter_was_open")
        case.nontrivial = True
    finally:
        sc.cleanup()


def wl_large_dense(ctx, rng, case):
    """LARGE filters (bit arrays of 40 KiB .. 200 KiB, number_bits not a multiple of 8) filled DENSELY: a hand-written strategy sends
    thousands of keys to chosen positions so that every byte of the array carries a bit of some key; the keys are split over two
    filters (one possibly on disk), united, exported and loaded back - every key must stay present at every stage"""
    import probables as P

    for _ in range(40):
        est, rate = rng.choice([(35000, 0.01), (50000, 0.01), (70000, 0.01), (30000, 0.001), (160000, 0.01)])
        est += rng.randint(0, 40)
        mk = refimpl.bloom_sizing_simple(est, rate)
        if mk and mk[0] % 8 != 0:
            break
    if case.index % 3 == 1:
        # every third: an array whose length is an exact multiple of a power-of-two block size (512 bytes .. 64 KiB)
        est, rate, *mk = gen.aligned_geometry(rng, max_len=200000)
        ctx.count("large_dense_block_aligned_arrays")
    m, k = mk
    nbytes = (m + 7) // 8
    # one position in every byte (random bit), grouped k at a time into keys
    pos = []
    for b in range(nbytes):
        hi = min(8, m - 8 * b)
        pos.append(8 * b + rng.randrange(hi))
    rng.shuffle(pos)
    table, keys = {}, []
    for i in range(0, len(pos), k):
        key = f"dense-{i // k}" if (i // k) % 3 else b"dense-%d" % (i // k)
        grp = pos[i:i + k]
        grp = grp + grp[: k - len(grp)]
        table[key] = [p + m * rng.randint(0, 3) for p in grp]  # values beyond the array size: reduced mod number_bits
        keys.append(key)
    hf = gen.TableHash("hand_every_byte", table)
    case.desc = {"kind": "large dense", "est": est, "rate": rate, "bits": m, "hashes": k, "bytes": nbytes, "n_keys": len(keys)}
    ctx.observe("large_dense_bytes", nbytes)
    sc = bl.Scratch(ctx, case)
    objs = []
    try:
        a = P.BloomFilter(est, rate, hash_function=hf)
        b = P.BloomFilterOnDisk(sc.path("dense"), est, rate, hash_function=hf) if rng.random() < 0.4 else P.BloomFilter(est, rate, hash_function=hf)
        objs.append(b)
        ctx.check((a.number_bits, a.number_hashes) == (m, k), "geometry differs from the independent sizing", got=(a.number_bits, a.number_hashes), want=(m, k))
        for i, key in enumerate(keys):
            (a if i % 2 else b).add(key)

        def all_present(f, subset, where):
            missing = [key for key in subset if not f.check(key)]
            ctx.counters["oracle_evaluations"] += len(subset)
            if missing:
                ctx.fail(f"{len(missing)} added keys are reported absent {where} (large, densely filled filter)", first=missing[:5], bits=m, bytes=nbytes)

        all_present(a, keys[1::2], "by the filter they were added to")
        all_present(b, keys[0::2], "by the filter they were added to")
        for first, second, tag in ((a, b, "a.union(b)"), (b, a, "b.union(a)")):
            u = first.union(second)
            ctx.check(u is not None, f"{tag} returned None")
            if u.elements_added < 0:
                continue
            all_present(u, keys, f"after {tag}")
            v = P.BloomFilter.frombytes(bytes(u), hash_function=hf)
            all_present(v, keys, f"after {tag}, export and load")
        case.op("filled", len(keys))
        ctx.count("large_dense_cases")
        ctx.count("full_probes", 6)
        case.nontrivial = True
    finally:
        for o in objs:
            if hasattr(o, "close"):
                try:
                    o.close()
                except Exception:
                    pass
        sc.cleanup()


PROP = Prop(
    "C01",
    "exploration",
    rule=("random histories over BloomFilter / BloomFilterOnDisk (workload plain), ExpandingBloomFilter (expanding) and a deterministic sweep of "
          "geometries x channels (boundary); geometry, key universe (str and bytes, hostile fixed keys), hash strategy (shipped, decorator-built, "
          "hand-written colliding/huge/negative) and operations are drawn from the case RNG. A case is non-trivial when >= 2 keys were added and "
          "at least one growth, union or reload happened; distinct by hash of (parameters, operation sequence)."),
    workloads=[
        Workload("boundary", wl_boundary, quick=90, thorough=1800),
        Workload("many_keys", wl_many_keys, quick=12, thorough=600),
        Workload("large_dense", wl_large_dense, quick=6, thorough=90),
        Workload("rate_types", wl_rate_types, quick=40, thorough=2500),
        Workload("rebind", wl_rebind, quick=40, thorough=4000),
        Workload("plain", wl_plain, quick=1600, thorough=120000),
        Workload("expanding", wl_expanding, quick=1000, thorough=80000),
    ],
    assumptions=["shadow set kept by the harness; a key is 'added' once add/add_alt returned normally",
                 "geometries are screened with the independent sizing so that number_bits/number_hashes are unambiguous"],
    required=["full_probes", "monotonicity_checks", "op.reload", "op.union", "cases_with_growth", "many_key_cases", "rate_type_cases_on_the_float32_edge", "paths_reused_while_an_earlier_filter_was_open"],
)
