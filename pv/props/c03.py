"""C03 - cuckoo filters lose no key through kicks, expansion or a failed insert.

Monitor shape: history + fingerprint-level model, executed under ALL resolutions of the filter's internal random choices
(scripted stdlib random, DFS over the eviction decisions) for bounded histories and random resolutions beyond the bound.
After every call - including calls that raised CuckooFilterFullError - every key whose fingerprint the model holds is probed.
"""
import random as _stdrandom
from collections import Counter

from .. import bl, ck, rngscript
from ..core import Prop, Workload, Violation


def make_oracle(ctx, cfg, keys, stats):
    def oracle(f, model, i, op, outcome, before):
        where = f"after op {i} {op} -> {outcome[0]}"
        for k in ctx.alternating(keys):
            if model.present(k):
                ctx.counters["oracle_evaluations"] += 1
                got = f.check(k)
                if not got or (k not in f):
                    # distinguish the clause of the statement that fails
                    if outcome[0] == "full":
                        ctx.fail(f"a key that was present before a failed {op[0]} (CuckooFilterFullError) is reported absent {where}", key=k,
                                 fingerprint=cfg.raw_fp(k), decisions=list(rngscript.S.trace))
                    ctx.fail(f"a key whose fingerprint was added and not removed is reported absent {where}", key=k, fingerprint=cfg.raw_fp(k),
                             decisions=list(rngscript.S.trace), capacity=f.capacity)
        stats["probes"] += 1
        if op[0] == "remove":
            want = before[cfg.raw_fp(op[1])] > 0
            if bool(outcome[1]) != want:
                ctx.fail(f"remove returned {outcome[1]!r} for a fingerprint that the model says is {'present' if want else 'absent'} {where}", key=op[1])
    return oracle


def explore_case(ctx, rng, case, cfg, keys, ops, max_leaves, extra):
    import probables as P

    sc = bl.Scratch(ctx, case)
    stats = Counter()
    oracle = make_oracle(ctx, cfg, keys, stats)

    def run():
        ck.run_history(ctx, P, cfg, keys, ops, sc, oracle, stats=stats)

    try:
        ex = rngscript.explore(run, max_leaves, sample_rng=_stdrandom.Random(rng.getrandbits(32)), extra_samples=extra)
    finally:
        sc.cleanup()
    ctx.count("resolutions_executed", ex.runs + ex.sampled)
    ctx.count("decisions_taken", ex.decisions)
    ctx.maximum("max_decisions_in_one_run", ex.max_depth)
    if ex.exhaustive:
        ctx.count("histories_explored_exhaustively")
        if ex.runs > 1:
            ctx.count("histories_explored_exhaustively_with_choices")
    else:
        ctx.count("histories_sampled_beyond_leaf_cap")
    for k in ("failed_adds", "failed_expansions", "explicit_expansions", "capacity_changes", "reloads", "probes"):
        ctx.count(k, stats[k])
    if ex.decisions == 0:
        ctx.count("histories_without_any_eviction")
    return ex, stats


def wl_explore(ctx, rng, case):
    cfg = ck.gen_cfg(rng)
    keys = ck.with_zero_fp_keys(ctx, rng, cfg, ck.gen_keys(rng, cfg, rng.randint(3, 12)), p=0.12)
    if len(keys) < 2:
        return
    n = rng.randint(4, 14)
    ops = ck.gen_history(rng, keys, n, p_remove=rng.choice([0.0, 0.15, 0.3]), p_expand=0.06, p_reload=0.05)
    case.desc = dict(cfg.desc(), n_keys=len(keys))
    for op in ops:
        case.op(*op)
    leaves = 400 if ctx.tier == "quick" else 20000
    ex, stats = explore_case(ctx, rng, case, cfg, keys, ops, leaves, extra=40 if ctx.tier == "quick" else 400)
    case.desc["resolutions"] = ex.runs + ex.sampled
    case.desc["exhaustive"] = ex.exhaustive
    ctx.observe("capacities", cfg.capacity)
    ctx.observe("bucket_sizes", cfg.bucket_size)
    ctx.observe("max_swaps", cfg.max_swaps)
    case.nontrivial = ex.decisions > 0 or stats["capacity_changes"] > 0


def wl_full_table(ctx, rng, case):
    """aimed at the failed-insert clause: auto_expand off, keep adding distinct keys to a tiny table until several inserts fail,
    interleaved with removals; all resolutions of every failing insert are explored"""
    cfg = ck.gen_cfg(rng)
    cfg.auto_expand = False
    cfg.capacity = rng.choice([1, 2, 3, 4])
    cfg.bucket_size = rng.choice([1, 2, 2])
    cfg.max_swaps = rng.choice([1, 2, 3])
    keys = ck.gen_keys(rng, cfg, cfg.capacity * cfg.bucket_size + rng.randint(2, 5))
    if len(keys) < 3:
        return
    ops = []
    order = list(keys)
    rng.shuffle(order)
    for k in order:
        ops.append(("add", k))
        if rng.random() < 0.15:
            ops.append(("remove", rng.choice(order)))
    case.desc = dict(cfg.desc(), n_keys=len(keys), kind="fill past capacity, auto_expand off")
    for op in ops:
        case.op(*op)
    ex, stats = explore_case(ctx, rng, case, cfg, keys, ops, 600 if ctx.tier == "quick" else 30000, extra=60)
    case.nontrivial = stats["failed_adds"] > 0


def wl_expansion(ctx, rng, case):
    """aimed at expansion: auto_expand on, tiny tables (incl. capacity 1 / bucket 1, where an expansion itself can fail), rates 2..3"""
    cfg = ck.gen_cfg(rng)
    cfg.auto_expand = True
    cfg.capacity = rng.choice([1, 1, 2, 2, 3])
    cfg.bucket_size = rng.choice([1, 1, 2])
    cfg.max_swaps = rng.choice([1, 1, 2, 3])
    explicit = case.index % 4 == 1
    if explicit:
        # EXPLICIT expansions of a filter that may not grow on its own (auto_expand off), with one kick per insertion and, half of the time,
        # a non-growing rate: the rebuild often fails - and must then leave every key where it was
        cfg.auto_expand, cfg.max_swaps, cfg.bucket_size = False, 1, rng.choice([1, 1, 2])
        cfg.capacity = rng.choice([4, 8, 12, 16])
        cfg.expansion_rate = rng.choice([1, 1, 2])
        ctx.count("cases_with_explicit_expansions_of_a_filter_that_may_not_grow")
    keys = ck.gen_keys(rng, cfg, rng.randint(4, 10) if not explicit else cfg.capacity * cfg.bucket_size)
    if len(keys) < 3:
        return
    ops = ck.gen_history(rng, keys, rng.randint(5, 12), p_remove=0.1, p_expand=0.1, p_reload=0.05)
    if explicit:
        ops = [("add", k) for k in keys] + [("expand",), ("add", keys[0]), ("expand",), ("remove", keys[-1]), ("expand",)] + ops[:4]
    case.desc = dict(cfg.desc(), n_keys=len(keys), kind="auto-expansion on tiny tables" if not explicit else "explicit expansions, auto_expand off")
    for op in ops:
        case.op(*op)
    # (the explicit-expansion histories are long and branch at every failing rebuild: a smaller leaf cap in the thorough tier keeps a shard within its budget)
    ex, stats = explore_case(ctx, rng, case, cfg, keys, ops, 600 if ctx.tier == "quick" else (2000 if explicit else 30000), extra=60)
    case.nontrivial = stats["capacity_changes"] > 0
    if stats["capacity_changes"]:
        ctx.count("cases_with_expansion")


def wl_zero_fingerprint(ctx, rng, case):
    """keys whose raw fingerprint is 0 (the empty-slot marker of the export format, remapped by the library) must survive kicks,
    expansions and reloads like any other key.  How 0 is remapped is the library's choice, so these histories contain no removals
    (an alias with another key's fingerprint can then only make keys MORE present, never absent)."""
    cfg = ck.gen_cfg(rng, allow_rate=False)
    cfg.finger_size = 1
    cfg.capacity = rng.choice([2, 3, 4, 5, 8])
    cfg.bucket_size = rng.choice([1, 2, 2])
    cfg.max_swaps = rng.choice([1, 2, 3])
    cfg.auto_expand = rng.random() < 0.7
    zero = []
    i = rng.randint(0, 50000)
    while len(zero) < rng.randint(1, 3):
        k = f"z{i}"
        i += 1
        if cfg.raw_fp(k) == 0:
            zero.append(k)
    others = [k for k in (f"o{j}" for j in range(rng.randint(3, 9))) if cfg.raw_fp(k) != 0]
    keys = zero + others
    ops = []
    order = list(keys)
    rng.shuffle(order)
    # the zero-fingerprint key goes in early so that later adds kick it around / expansions relocate it
    order.remove(zero[0])
    order.insert(rng.randint(0, 1), zero[0])
    for k in order:
        ops.append(("add", k))
        r = rng.random()
        if r < 0.15:
            ops.append(("expand",))
        elif r < 0.25:
            ops.append(("reload", rng.choice(["bytes", "path"])))
    case.desc = dict(cfg.desc(), n_keys=len(keys), zero_fingerprint_keys=zero, kind="zero-fingerprint keys, no removals")
    for op in ops:
        case.op(*op)
    ex, stats = explore_case(ctx, rng, case, cfg, keys, ops, 400 if ctx.tier == "quick" else 20000, extra=40)
    ctx.count("zero_fingerprint_histories")
    if stats["capacity_changes"]:
        ctx.count("zero_fingerprint_histories_with_expansion")
    case.nontrivial = ex.decisions > 0 or stats["capacity_changes"] > 0


def wl_long(ctx, rng, case):
    """long-lived tables: 40-120 operations on tiny auto-expanding tables, so the table expands several times in a row, interleaved with
    removals, explicit expansions and reloads; a handful of random resolutions of the eviction choices per history (no DFS)"""
    cfg = ck.gen_cfg(rng)
    cfg.auto_expand = True
    cfg.capacity = rng.choice([1, 2, 3])
    cfg.bucket_size = rng.choice([1, 2, 2, 3])
    cfg.max_swaps = rng.choice([2, 3, 5, 8])
    keys = ck.with_zero_fp_keys(ctx, rng, cfg, ck.gen_keys(rng, cfg, rng.randint(20, 60)), p=0.12)
    if len(keys) < 10:
        return
    ops = ck.gen_history(rng, keys, rng.randint(40, 120), p_remove=0.2, p_expand=0.03, p_reload=0.04)
    case.desc = dict(cfg.desc(), n_keys=len(keys), kind="long history, several expansions")
    for op in ops[:60]:
        case.op(*op)
    ex, stats = explore_case(ctx, rng, case, cfg, keys, ops, 1, extra=4 if ctx.tier == "quick" else 12)
    ctx.maximum("max_capacity_changes_in_one_history", stats["capacity_changes"] // max(1, ex.runs + ex.sampled))
    if stats["capacity_changes"] >= 3 * (ex.runs + ex.sampled):
        ctx.count("histories_with_three_or_more_expansions")
    case.nontrivial = stats["capacity_changes"] > 0


def wl_big_crowded(ctx, rng, case):
    """a BIG table (300 .. 1200 buckets) with the default budget of 500 kicks, filled with distinct keys to the brim without growing: the
    last additions need kick walks of hundreds of steps that still succeed (or fail and are undone).  Every key that went in is probed
    after every addition in the crowded phase; a handful of random resolutions of the choices per case."""
    import probables as P
    from probables.exceptions import CuckooFilterFullError

    counting = case.index % 2 == 1
    cap, bsz = rng.choice([(400, 2), (300, 2), (1200, 1), (350, 3)])
    if case.index % 4 >= 2:
        # WIDE buckets (8 .. 64 slots, every size in between is drawn somewhere): few buckets, each a small table of its own
        # (indices 2, 3 mod 4: one plain and one counting filter in every four cases)
        bsz = rng.choice([8, 12, 16, 17, 20, 24, 31, 32, 33, 48, 64, rng.randint(9, 64), rng.randint(16, 40)])
        cap = max(3, rng.choice([600, 900]) // bsz)
        ctx.count("big_crowded.cases_with_wide_buckets")
        ctx.observe("wide_bucket_sizes", bsz, cap=64)
    swaps = rng.choice([500, 500, 300, 1000])
    cls = P.CountingCuckooFilter if counting else P.CuckooFilter
    case.desc = {"cls": cls.__name__, "capacity": cap, "bucket_size": bsz, "max_swaps": swaps, "kind": "big crowded table"}
    longest = 0
    rngscript.start([], fallback=_stdrandom.Random(rng.getrandbits(32)))
    try:
        f = cls(capacity=cap, bucket_size=bsz, max_swaps=swaps, auto_expand=False, finger_size=4)
        present = []
        refused = 0
        i = 0
        while refused < 80 and i < int(cap * bsz * 1.25):
            key = f"crowd-{case.index}-{i}"
            i += 1
            n0 = len(rngscript.S.trace)
            try:
                f.add(key)
                present.append(key)
                if len(rngscript.S.trace) - n0 >= 128:
                    ctx.count("big_crowded.successful_walks_of_128_or_more_decisions")
            except CuckooFilterFullError:
                refused += 1
                ctx.count("failed_adds")
            longest = max(longest, len(rngscript.S.trace) - n0)
            if len(present) > 0.8 * cap * bsz:
                ctx.counters["oracle_evaluations"] += len(present)
                missing = [k for k in present if not f.check(k)]
                if missing:
                    ctx.fail(f"{len(missing)} keys that were added and never removed are reported absent after addition #{i} of a crowded {cap}x{bsz} table "
                             f"(the last call took {len(rngscript.S.trace) - n0} random decisions)", first=missing[:4], load=len(present) / (cap * bsz))
                ctx.count("probes")
        ctx.maximum("longest_kick_walk_decisions", longest)
        if longest >= 128:
            ctx.count("big_crowded.cases_with_walks_of_128_or_more_kicks")
        ctx.count("resolutions_executed")
        ctx.count("decisions_taken", len(rngscript.S.trace))
    finally:
        rngscript.stop()
    case.nontrivial = longest >= 20


def wl_expand_sweep(ctx, rng, case):
    """EVERY capacity from 1 to 96 (one case each; then the default-sized table), bucket sizes 1..4, every number of stored keys from 1 to 16
    (and a few larger ones): the filter is expanded explicitly - and once more - and every key must still be reported afterwards"""
    import probables as P

    cap = case.index + 1 if case.index < 96 else 10000
    counting = case.index % 2 == 1
    cls = P.CountingCuckooFilter if counting else P.CuckooFilter
    case.desc = {"capacity": cap, "cls": cls.__name__, "kind": "expansion sweep over capacity x bucket size x number of keys"}
    rngscript.start([], fallback=_stdrandom.Random(rng.getrandbits(32)))
    try:
        for bsz in ((1, 2, 3, 4) if cap < 10000 else (4, 2)):
            for n in list(range(1, 17)) + [24, 29, 48, 64]:
                if n > cap * bsz:
                    continue
                f = cls(capacity=cap, bucket_size=bsz, max_swaps=50, auto_expand=False, expansion_rate=rng.choice([2, 2, 3]))
                keys = [f"sw-{cap}-{bsz}-{n}-{i}" for i in range(n)]
                stored = []
                for kx in keys:
                    try:
                        f.add(kx)
                        stored.append(kx)
                    except Exception:
                        pass
                for rnd in range(2):
                    try:
                        f.expand()
                    except Exception:
                        ctx.count("sweep_expansions_refused")
                    ctx.counters["oracle_evaluations"] += len(stored)
                    missing = [kx for kx in stored if not f.check(kx)]
                    if missing:
                        ctx.fail(f"{len(missing)} of {len(stored)} stored keys are reported absent after explicit expansion #{rnd + 1} of a {cap}x{bsz} table",
                                 first=missing[:3], capacity_now=f.capacity)
                ctx.count("sweep_expansions_checked")
        ctx.count("resolutions_executed")
    finally:
        rngscript.stop()
    ctx.maximum("expand_sweep_max_capacity", cap)
    case.nontrivial = True


def wl_small_fingerprints(ctx, rng, case):
    """counting filter, one or two buckets, one-byte fingerprints: keys whose fingerprint is as small as a bin COUNT (1..6) share a bucket
    with ordinary keys that were added that many times; additions and complete removals in every order - no key that was added and not
    removed may ever be reported absent, no removal may take another key along"""
    import probables as P

    cfg = ck.Cfg(True, rng.choice([1, 1, 2]), rng.choice([6, 8, 12]), 5, 1, False, 2, "library_default", None)
    small = {}
    for i in range(6000):
        k = f"t{i}"
        fp = cfg.raw_fp(k)
        if 1 <= fp <= 6 and fp not in small:
            small[fp] = k
        if len(small) == 6:
            break
    others = [k for k in (f"j{i}" for i in range(40)) if cfg.raw_fp(k) > 6][:4]
    case.desc = dict(cfg.desc(), kind="fingerprints as small as bin counts")
    rngscript.start([], fallback=_stdrandom.Random(rng.getrandbits(32)))
    try:
        f = cfg.make(P)
        out = Counter()
        steps = []
        for j in others:
            steps += [("add", j)] * rng.randint(1, 5)
        rng.shuffle(steps)
        steps += [("add", small[fp]) for fp in rng.sample(sorted(small), rng.randint(2, 5))]
        steps += [("remove", rng.choice(list(small.values()) + others)) for _ in range(6)] + [("add", rng.choice(list(small.values()))) for _ in range(3)]
        for i, (op, k) in enumerate(steps):
            try:
                if op == "add":
                    f.add(k)
                    out[cfg.raw_fp(k)] += 1
                elif out[cfg.raw_fp(k)] > 0:
                    f.remove(k)
                    out[cfg.raw_fp(k)] -= 1
            except Exception as e:
                if type(e).__name__ != "CuckooFilterFullError":
                    raise
                continue
            for kx in others + list(small.values()):
                ctx.counters["oracle_evaluations"] += 1
                if out[cfg.raw_fp(kx)] > 0 and not f.check(kx):
                    ctx.fail(f"a key whose fingerprint was added and not removed is reported absent after step {i} ({op} {k!r}) in a bucket where fingerprints are as small as counts",
                             key=kx, fingerprint=cfg.raw_fp(kx), outstanding=out[cfg.raw_fp(kx)])
        ctx.count("probes")
        ctx.count("resolutions_executed")
        ctx.count("small_fingerprint_cases")
    finally:
        rngscript.stop()
    case.nontrivial = True


def wl_after_refusals(ctx, rng, case):
    """life goes on after refused calls: a crowded auto-expanding table whose expansions are refused (non-growing rate, or too few swaps), with
    keys added more than once; then the rate is raised, most keys are removed again completely, the table is expanded explicitly and refilled.
    Whatever a refused call left behind in the bookkeeping must not cost a key later."""
    cfg = ck.gen_cfg(rng, allow_rate=False)
    cfg.capacity = rng.choice([1, 2, 2, 3, 4])
    cfg.bucket_size = rng.choice([1, 2, 2])
    cfg.max_swaps = rng.choice([1, 2, 3, 10])
    cfg.auto_expand = True
    cfg.expansion_rate = rng.choice([1, 1, 2])
    keys = ck.gen_keys(rng, cfg, rng.randint(4, 9))
    if len(keys) < 3:
        return
    ops = []
    for k in keys:
        ops.extend([("add", k)] * rng.choice([1, 2, 2, 3]))
    ops.append(("rate", rng.choice([2, 3])))
    gone = rng.sample(keys, rng.randint(1, len(keys) - 1))
    for k in gone:
        ops.extend([("remove", k)] * 3)
    ops.append(("expand",))
    for k in rng.sample(keys, min(len(keys), 4)):
        ops.append(("add", k))
    if rng.random() < 0.5:
        ops.append(("expand",))
    case.desc = dict(cfg.desc(), n_keys=len(keys), kind="refused expansions, removals, explicit expansion")
    for op in ops:
        case.op(*op)
    ex, stats = explore_case(ctx, rng, case, cfg, keys, ops, 40 if ctx.tier == "quick" else 2000, extra=6 if ctx.tier == "quick" else 60)
    if stats["failed_adds"] or stats["failed_expansions"]:
        ctx.count("histories_continuing_after_a_refused_call")
    case.nontrivial = (stats["failed_adds"] + stats["failed_expansions"]) > 0


def wl_crowd(ctx, rng, case):
    """several filters ALIVE AT ONCE whose histories are interleaved: same capacity and bucket size, fingerprints of one byte (so the
    same fingerprint values occur in all of them) but different hash strategies, plus one bulk filter that takes tens of thousands of
    distinct keys in the middle.  Whatever one object does must not disturb what another reports: every filter keeps its own model and
    all models are probed after every call and again after the bulk phase."""
    import hashlib

    import probables as P

    base = ck.gen_cfg(rng, allow_rate=False)
    base.finger_size = 1
    base.capacity = rng.choice([4, 8, 12, 16])
    base.bucket_size = rng.choice([1, 2, 2, 3])
    base.max_swaps = rng.choice([2, 3, 5])
    nkeys = lambda: rng.randint(12, 40)  # of 255 possible one-byte fingerprints: the filters meet the same fingerprint values

    def md5_hash(key):
        return int(hashlib.md5(key if isinstance(key, bytes) else str(key).encode("utf-8")).hexdigest()[:16], 16)

    def sha_hash(key):
        return int(hashlib.sha256(key if isinstance(key, bytes) else str(key).encode("utf-8")).hexdigest()[:16], 16)

    sc = bl.Scratch(ctx, case)
    stats = Counter()
    members = []
    for j, (hname, hf) in enumerate([("library_default", None), ("hand_md5_single_value", md5_hash), ("hand_sha256_single_value", sha_hash), ("packed", "packed")]):
        cfg = ck.Cfg(rng.random() < 0.5, base.capacity, base.bucket_size, base.max_swaps, 1, rng.random() < 0.6, rng.choice([2, 2, 3]), hname, hf if hf != "packed" else None)
        if hf == "packed":
            keys = ck.gen_keys(rng, cfg, nkeys())  # may install its own bucket-packing table hash
        else:
            keys = [k for k in (f"m{j}-{i}" for i in range(nkeys())) if cfg.raw_fp(k) != 0]
        if len(keys) < 3:
            continue
        ops = ck.gen_history(rng, keys, rng.randint(30, 70), p_remove=0.12, p_expand=0.04, p_reload=0.04)
        members.append([cfg, keys, ck.iter_history(ctx, P, cfg, keys, ops, sc, make_oracle(ctx, cfg, keys, stats), stats=stats), None, None, len(ops)])
    case.desc = {"kind": "crowd", "members": [m[0].desc() for m in members], "capacity": base.capacity}
    bulk_n = rng.choice([70000, 70000, 140000])

    def probe_all(where):
        for cfg, keys, _, f, model, _ in members:
            if f is None:
                continue
            for k in ctx.alternating(keys):
                if model.present(k):
                    ctx.counters["oracle_evaluations"] += 1
                    if not f.check(k):
                        ctx.fail(f"a key whose fingerprint was added and not removed is reported absent {where} (several filters alive at once)",
                                 key=k, filter=cfg.desc(), fingerprint=cfg.raw_fp(k))

    rngscript.start([], fallback=_stdrandom.Random(rng.getrandbits(32)))
    try:
        for m in members:
            m[3], m[4] = next(m[2])
        live = list(members)
        steps = 0
        half = sum(m[5] for m in members) // 2
        bulk_done = False
        while live:
            m = rng.choice(live)
            try:
                m[3], m[4] = next(m[2])
            except StopIteration:
                live.remove(m)
                continue
            steps += 1
            probe_all(f"after interleaved step {steps}")
            if not bulk_done and steps >= half:
                bulk_done = True
                big = P.CuckooFilter(capacity=rng.choice([5000, 20000]), bucket_size=4, max_swaps=100, auto_expand=True, finger_size=4)
                for i in range(bulk_n):
                    big.add(f"bulk-{case.index}-{i}")
                    if i % 20000 == 19999:
                        probe_all(f"after {i + 1} additions to another (bulk) filter")
                for i in rng.sample(range(bulk_n), min(bulk_n, 1500)):
                    ctx.counters["oracle_evaluations"] += 1
                    if not big.check(f"bulk-{case.index}-{i}"):
                        ctx.fail("bulk filter: an added key is reported absent", key=f"bulk-{case.index}-{i}")
                probe_all(f"after {bulk_n} additions to another (bulk) filter")
                ctx.count("crowd.bulk_additions", bulk_n)
                ctx.maximum("crowd.max_bulk_additions_in_one_case", bulk_n)
        ctx.count("crowd.interleaved_steps", steps)
        ctx.count("crowd.filters_alive_at_once", len(members) + 1)
    finally:
        rngscript.stop()
        sc.cleanup()
    for k in ("failed_adds", "failed_expansions", "explicit_expansions", "capacity_changes", "reloads", "probes"):
        ctx.count(k, stats[k])
    case.nontrivial = len(members) >= 2 and steps > 10


def finish(cov, merged, tier):
    c = merged["counters"]
    cov["decision_sequences_explored"] = int(c.get("resolutions_executed", 0))
    cov["exhaustive_note"] = (f"{c.get('histories_explored_exhaustively', 0)} histories had ALL resolutions of the internal random choices executed "
                              f"({c.get('histories_explored_exhaustively_with_choices', 0)} of them with at least one choice point); "
                              f"{c.get('histories_sampled_beyond_leaf_cap', 0)} exceeded the leaf cap and were sampled")


PROP = Prop(
    "C03",
    "exploration",
    rule=("each case draws a configuration (capacity 1..8, bucket size 1..4, max_swaps 1..6, fingerprint 1..4 bytes, auto_expand on/off, expansion rate 2..3, "
          "default or hand-written bucket-packing hash, plain or counting filter) and a history of add/remove/expand/reload; the history is re-executed once "
          "per resolution of the filter's random.choice/randint decisions (DFS, complete below the leaf cap: 400-600 quick / 20 000-30 000 thorough; random "
          "resolutions beyond). Non-trivial = at least one eviction decision or capacity change (explore), a failed insert (full_table), an expansion (expansion). "
          "Distinct by hash of (configuration, history)."),
    workloads=[
        Workload("full_table", wl_full_table, quick=120, thorough=2500),
        Workload("expansion", wl_expansion, quick=120, thorough=2500),
        Workload("zero_fingerprint", wl_zero_fingerprint, quick=80, thorough=2000),
        Workload("explore", wl_explore, quick=200, thorough=3500),
        Workload("long", wl_long, quick=60, thorough=3000),
        Workload("crowd", wl_crowd, quick=16, thorough=320),
        Workload("big_crowded", wl_big_crowded, quick=12, thorough=120),
        Workload("expand_sweep", wl_expand_sweep, quick=97, thorough=97),
        Workload("small_fingerprints", wl_small_fingerprints, quick=30, thorough=600),
        Workload("after_refusals", wl_after_refusals, quick=100, thorough=1500),
    ],
    assumptions=["fingerprint model uses an independent FNV-1a (ASCII/bytes keys); keys whose raw fingerprint is 0 (the empty-slot marker) appear only in the zero_fingerprint workload, whose histories contain no removals (how 0 is remapped is the library's choice)",
                 "after a failed add the presence of the NEW key is taken from observation (the statement only protects the keys present before)",
                 "scripted stdlib random: decisions default to 0 beyond the explored prefix"],
    finish=finish,
    required=["probes", "resolutions_executed", "decisions_taken", "failed_adds", "capacity_changes", "histories_explored_exhaustively_with_choices", "zero_fingerprint_histories_with_expansion", "histories_with_three_or_more_expansions"],
)
