"""C14 - elements_added tracks the documented quantity through every operation.

Monitor shape: the counter is re-derived independently after EVERY step of compact histories over every structure
(shadow counts kept by the harness, fingerprints / bins counted from the exposed bucket table, stored hashes from get_hashes()),
and the Bloom statistics are recomputed from the exported bit array with independent formulas.
"""
import os
import random as _stdrandom
from collections import Counter
from decimal import Decimal

from .. import bl, ck, gen, refimpl, rngscript
from ..core import Prop, Workload

SL = Decimal("1e-9")


def popcount_cells(f, counting=False):
    cells = bl.cells_of(f)
    if counting:
        return sum(1 for c in cells if c > 0)
    return sum(bin(c).count("1") for c in cells)


def estimate_candidates(m, k, X):
    """acceptable values of int(-(m/k) ln(1 - X/m)) (either neighbour when within 1e-9 of an integer)"""
    if X >= m:
        return None
    v = -(Decimal(m) / Decimal(k)) * (Decimal(1) - Decimal(X) / Decimal(m)).ln()
    fl = int(v.to_integral_value(rounding="ROUND_FLOOR"))
    out = {fl}
    if abs(v - Decimal(fl)) <= SL * max(abs(v), Decimal(1)):
        out.add(fl - 1)
    if abs(v - Decimal(fl + 1)) <= SL * max(abs(v), Decimal(1)):
        out.add(fl + 1)
    return {max(o, 0) for o in out} | out


def check_stats(ctx, f, where, counting=False):
    m, k, n = f.number_bits, f.number_hashes, f.elements_added
    X = popcount_cells(f, counting)
    cand = estimate_candidates(m, k, X)
    if cand is not None:
        got = f.estimate_elements()
        ctx.check(got in cand, f"estimate_elements() is not int(-(m/k) ln(1 - X/m)) {where}", got=got, want=sorted(cand), bits=m, hashes=k, set_bits=X)
        ctx.count("statistics_checks")
    if n >= 0:
        want = (Decimal(1) - (-(Decimal(k) * Decimal(n)) / Decimal(m)).exp()) ** k
        got = Decimal(f.current_false_positive_rate())
        ctx.check(abs(got - want) <= SL * max(want, Decimal("1e-300")) + Decimal("1e-300"), f"current_false_positive_rate() is not (1 - e^(-kn/m))^k {where}",
                  got=float(got), want=float(want), n=n)
    return X, cand


# ------------------------------------------------------------------------------- Bloom family

def wl_bloom_large_dense(ctx, rng, case):
    """LARGE Bloom filters (70 KiB .. 350 KiB of bits) in which nearly every byte carries a bit (hand-made hash lists through add_alt): the
    statistics must still be the standard functions of the true set-bit count X - counted here independently over the exported cells - also
    for the element count a union / intersection derives, and after a reload"""
    import probables as P

    est, rate = rng.choice([(60000, 0.01), (70000, 0.01), (140000, 0.01), (40000, 0.0001), (300000, 0.01)])
    mk = refimpl.bloom_sizing_simple(est, rate)
    if mk is None:
        return
    m, k = mk
    case.desc = {"kind": "bloom large dense", "est": est, "rate": rate, "bits": m, "hashes": k}
    sc = bl.Scratch(ctx, case)
    objs = []
    try:
        a = P.BloomFilter(est, rate)
        b = P.BloomFilterOnDisk(sc.path("ld"), est, rate) if rng.random() < 0.4 else P.BloomFilter(est, rate)
        objs.append(b)
        bl.dense_fill(rng, [[a], [b]], m, k, share=rng.choice([0.3, 0.6, 0.9]))
        for f, tag in ((a, "in memory"), (b, "second operand")):
            check_stats(ctx, f, f"(large densely filled filter, {tag})")
        for name, r in (("union", a.union(b)), ("intersection", a.intersection(b))):
            if r is None or r.elements_added < 0:
                continue
            X = popcount_cells(r, False)
            cand = estimate_candidates(m, k, X)
            if cand is not None:
                ctx.check(r.elements_added in cand, f"the element count a {name} derives is not int(-(m/k) ln(1 - X/m)) of its set-bit count (large densely filled filters)",
                          got=r.elements_added, want=sorted(cand), set_bits=X)
                ctx.count("statistics_checks")
        g = P.BloomFilter.frombytes(bytes(a))
        check_stats(ctx, g, "(large densely filled filter, reloaded)")
        ctx.count("large_dense_statistics_cases")
        case.nontrivial = True
    finally:
        for o in objs:
            if hasattr(o, "close"):
                try:
                    o.close()
                except Exception:
                    pass
        sc.cleanup()


def wl_bloom(ctx, rng, case):
    import probables as P

    est, rate, m, k = gen.bloom_geometry(rng)
    keys = gen.universe(rng, rng.randint(2, 16))
    hname, hf = gen.pick_hash(rng, keys)
    on_disk = rng.random() < 0.4
    case.desc = {"kind": "bloom", "est": est, "rate": rate, "hash": hname, "on_disk": on_disk}
    ctx.observe("structures", "BloomFilterOnDisk" if on_disk else "BloomFilter")
    sc = bl.Scratch(ctx, case)
    cwd0 = os.getcwd()
    f = None
    try:
        path = sc.path("d") if on_disk else None
        f = P.BloomFilterOnDisk(path, est, rate, **bl.kw_hash(hf)) if on_disk else P.BloomFilter(est, rate, **bl.kw_hash(hf))
        calls = 0
        for step in range(rng.randint(3, 30)):
            r = rng.random()
            if r < 0.6:
                kk = rng.choice(keys)
                f.add(kk) if rng.random() < 0.8 else f.add_alt(f.hashes(kk))
                calls += 1
                case.op("add", kk)
            elif r < 0.7:
                f.clear()
                calls = 0
                case.op("clear")
            elif r < 0.85:
                case.op("reload")
                if on_disk:
                    f.close()
                    os.chdir(rng.choice([sc.other, os.path.dirname(path), cwd0]))
                    f = P.BloomFilterOnDisk(path, **bl.kw_hash(hf))
                    os.chdir(cwd0)
                    ctx.count("ondisk_reopens")
                else:
                    f = P.BloomFilter.frombytes(bytes(f), **bl.kw_hash(hf)) if rng.random() < 0.5 else P.BloomFilter(hex_string=f.export_hex(), **bl.kw_hash(hf))
            else:
                # union / intersection result: its element count is the estimate of its own bit array
                g = P.BloomFilter(est, rate, **bl.kw_hash(hf))
                for kk in rng.sample(keys, rng.randint(0, min(4, len(keys)))):
                    g.add(kk)
                op = rng.choice(["union", "intersection"])
                res = getattr(f, op)(g)
                case.op(op)
                X = popcount_cells(res)
                cand = estimate_candidates(m, k, X)
                if cand is not None:
                    ctx.check(res.elements_added in cand, f"element count of a {op} result is not the estimate of its own bit array (step {step})",
                              got=res.elements_added, want=sorted(cand), set_bits=X)
                    ctx.count("set_operation_count_checks")
            where = f"after step {step} ({case.ops[-1][0]})"
            ctx.check(f.elements_added == calls, f"elements_added is not the number of add calls {where}", got=f.elements_added, want=calls)
            if on_disk and f.elements_added >= 0:
                # the same number must be what another object sees in the live file / mapping, without closing the writer
                g1 = P.BloomFilter.frombytes(bytes(f), **bl.kw_hash(hf))
                g2 = P.BloomFilter(filepath=path, **bl.kw_hash(hf))
                ctx.check(g1.elements_added == calls and g2.elements_added == calls, f"another object loading the live on-disk filter sees another element count {where}",
                          frombytes=g1.elements_added, filepath=g2.elements_added, want=calls)
                ctx.count("live_ondisk_counter_reads")
            ctx.count("counter_checks")
            check_stats(ctx, f, where)
        case.nontrivial = calls > 0
    finally:
        os.chdir(cwd0)
        if f is not None and hasattr(f, "close"):
            try:
                f.close()
            except Exception:
                pass
        sc.cleanup()


def wl_expanding(ctx, rng, case):
    import probables as P

    rotating = rng.random() < 0.5
    est = rng.choice([1, 2, 3, 5])
    rate = rng.choice([0.1, 0.05, 0.01])
    keys = gen.universe(rng, rng.randint(3, 20))
    hname, hf = gen.pick_hash(rng, keys, kind=rng.choice(["library_default", "default_md5", "hand_mod3", "hand_pairs_collide"]))
    Q = rng.randint(1, 4)
    cls = P.RotatingBloomFilter if rotating else P.ExpandingBloomFilter
    extra = {"max_queue_size": Q} if rotating else {}
    case.desc = {"kind": cls.__name__, "est": est, "rate": rate, "hash": hname, "queue": Q}
    ctx.observe("structures", cls.__name__)
    f = cls(est_elements=est, false_positive_rate=rate, **extra, **bl.kw_hash(hf))
    calls = 0
    for step in range(rng.randint(3, 40)):
        r = rng.random()
        if r < 0.8:
            f.add(rng.choice(keys), force=rng.random() < 0.15)
            calls += 1
            case.op("add")
        elif r < 0.9:
            f.push()
            case.op("push")
        elif r < 0.95:
            f.pop() if rotating and f.current_queue_size > 1 else f.push()
            case.op("pop-or-push")
        else:
            if rotating and rng.random() < 0.4:
                # the queue limit is re-supplied with ANOTHER value (smaller or larger than the number of stored filters)
                extra = {"max_queue_size": rng.randint(1, 6)}
                ctx.count("rotating_reloads_with_another_queue_limit")
            if rng.random() < 0.5:
                f = cls.frombytes(bytes(f), **extra, **bl.kw_hash(hf))
            else:
                pth = os.path.join(ctx.tmpdir(), f"c14-exp-{os.getpid()}.bin")
                f.export(pth)
                f = cls(filepath=pth, **extra, **bl.kw_hash(hf))
            case.op("reload", extra)
        ctx.check(f.elements_added == calls, f"elements_added is not the number of add calls after step {step} ({case.ops[-1][0]})", got=f.elements_added, want=calls)
        ctx.count("counter_checks")
    case.nontrivial = calls > 0


def wl_counting(ctx, rng, case):
    """counting Bloom and the count-min family: net sum of added minus removed amounts"""
    import probables as P

    keys = [k for k in gen.universe(rng, rng.randint(2, 10), kinds=("str",))]
    hname, hf = gen.pick_hash(rng, keys)
    kind = rng.choice(["CountingBloomFilter", "CountMinSketch", "CountMeanSketch", "CountMeanMinSketch", "HeavyHitters", "StreamThreshold"])
    case.desc = {"kind": kind, "hash": hname}
    ctx.observe("structures", kind)
    if kind == "CountingBloomFilter":
        est, rate, m, k = gen.bloom_geometry(rng, max_bits=2000)
        f = P.CountingBloomFilter(est, rate, **bl.kw_hash(hf))
        mk2 = lambda: P.CountingBloomFilter(est, rate, **bl.kw_hash(hf))
        reload = lambda o: P.CountingBloomFilter.frombytes(bytes(o), **bl.kw_hash(hf))
    else:
        w, d = rng.choice([2, 3, 5, 50]), rng.randint(1, 4)
        extra = {"num_hitters": 3} if kind == "HeavyHitters" else ({"threshold": 4} if kind == "StreamThreshold" else {})
        cls = getattr(P, kind)
        f = cls(width=w, depth=d, **extra, **bl.kw_hash(hf))
        mk2 = lambda: cls(width=w, depth=d, **extra, **bl.kw_hash(hf))
        reload = lambda o: cls.frombytes(bytes(o), **extra, **bl.kw_hash(hf))
    # some histories use amounts around the 32-bit cell limits: cells pin there, the element total keeps counting
    big = rng.random() < 0.12
    if big:
        ctx.count("counting_histories_with_amounts_at_the_cell_limits")
    stats_every = rng.choice([1, 1, 2, 3, 4, 5])
    out = Counter()
    removes = 0
    eaten = 0  # counting Bloom only: amount taken out by requests larger than what the filter held for the key
    for step in range(rng.randint(3, 30)):
        bl.noise_reads(ctx, rng, f, keys)
        r = rng.random()
        kk = rng.choice(keys)
        if big and kind == "CountingBloomFilter" and 0.6 <= r < 0.85:
            continue
        if kind != "CountingBloomFilter" and not big and rng.random() < 0.06:
            # a call the sketch refuses (no integer amount, a hash list made for a deeper sketch): nothing was added, nothing is counted
            how = rng.choice(["None amount", "deeper hash list"])  # (a float amount is clamped, not refused, next to a cell at its limit)
            case.op("refused", kk, how)
            try:
                if how == "None amount":
                    f.add(kk, None)
                elif how == "float amount":
                    f.add(kk, 1.5)
                elif kind in ("HeavyHitters", "StreamThreshold"):
                    f.add_alt(kk, f.hashes(kk, f.depth + 2), 2)
                else:
                    f.add_alt(f.hashes(kk, f.depth + 2), 2)
                raise AssertionError(f"a call the unchanged library refuses was accepted ({how})")
            except (TypeError, IndexError):
                ctx.count("counting_calls_refused")
            total = sum(out.values()) - eaten
            ctx.check(f.elements_added == total, f"elements_added changed through a REFUSED call ({how}) at step {step}", got=f.elements_added, want=total)
            continue  # with cells at the limit only additions keep the simple meaning for the counting Bloom filter
        if r < 0.6 or kind == "HeavyHitters" and r < 0.85:
            n = rng.choice([1, 1, 2, 5, 40]) if not big else rng.choice([1, 3 * 10**8, 2**31 - 1, 2**31, 2**32 - 1, 2**32 + 5, 7])
            f.add(kk, n)
            out[kk] += n
            case.op("add", kk, n)
        elif r < 0.85 and kind == "CountingBloomFilter" and (eaten or rng.random() < 0.25):
            # a removal that asks for MORE than the filter holds for the key takes out what it holds (the amount actually
            # removed is what is subtracted); only keys whose positions are all distinct, so no counter can go below zero
            cells = bl.cells_of(f)
            pos = [h % f.number_bits for h in f.hashes(kk)]
            held = min(cells[i] for i in pos)
            if len(set(pos)) != len(pos) or held == 0:
                continue
            n = held + rng.randint(0, 3) if rng.random() < 0.7 else rng.randint(1, held)
            f.remove(kk, n)
            eaten += min(n, held)
            removes += 1
            case.op("remove_up_to_held", kk, n, held)
            ctx.count("counting_removals_requesting_more_than_held" if n > held else "counting_removals_by_held_amount")
        elif r < 0.85:
            if out[kk] <= 0 or eaten:
                continue
            n = rng.randint(1, out[kk])
            f.remove(kk, n)
            out[kk] -= n
            removes += 1
            case.op("remove", kk, n)
        elif r < 0.93:
            f = reload(f)
            case.op("reload")
        elif kind in ("CountMinSketch", "CountMeanSketch", "CountMeanMinSketch"):
            g = mk2()
            n2 = rng.randint(1, 9)
            k2 = rng.choice(keys)
            if rng.random() < 0.3:
                # an argument whose counters are all back at 0 while its element total is not (its cells were pinned at the 32-bit limit in between)
                lim = rng.choice([2**31 - 1, 2**31, 2**32])
                if rng.random() < 0.5:
                    g.add(k2, lim), g.add(k2, n2), g.remove(k2, lim)
                else:
                    g.remove(k2, lim + 1), g.add(k2, lim + 1 + n2)
                ctx.count("joins_with_an_argument_that_went_through_the_cell_limits")
            else:
                g.add(k2, n2)
            f.join(g)
            out[k2] += n2
            case.op("join", k2, n2)
            ctx.count("joins")
        elif kind == "CountingBloomFilter":
            # union / intersection with a second counting filter: the result's element count is the estimate of the result's own cells
            # (in the histories with amounts at the cell limits the sums of some counters pass 2^32-1 and are pinned there)
            g = mk2()
            for k2 in rng.sample(keys, rng.randint(0, min(4, len(keys)))):
                g.add(k2, rng.choice([1, 2, 9]) if not big else rng.choice([1, 2**31, 2**32 - 1, 2**32 - 1, 3 * 10**9]))
            op = rng.choice(["union", "union", "intersection"])
            res = getattr(f, op)(g)
            case.op(op)
            X = popcount_cells(res, True)
            cand = estimate_candidates(m, k, X)
            if cand is not None:
                ctx.check(res.elements_added in cand, f"element count of a counting {op} result is not the estimate of its own counters in use (step {step})",
                          got=res.elements_added, want=sorted(cand), cells_in_use=X)
                check_stats(ctx, res, f"(result of a counting {op}, step {step})", counting=True)
                ctx.count("counting_set_operation_count_checks")
                if max(bl.cells_of(res)) >= 2**32 - 1:
                    ctx.count("counting_set_operation_results_with_pinned_counters")
                elif res.elements_added >= 0:
                    # the RESULT stays in use: from its documented starting count (the estimate) on, additions add and removals subtract what
                    # they put in / take out - also when that carries the counter below zero (the estimate may be far below the multiplicities)
                    n0 = res.elements_added
                    for _ in range(rng.randint(1, 4)):
                        k3 = rng.choice(keys)
                        pos = [h % res.number_bits for h in res.hashes(k3)]
                        held = min(bl.cells_of(res)[i] for i in pos)
                        if held and len(set(pos)) == len(pos) and rng.random() < 0.7:
                            n3 = rng.randint(1, held)
                            res.remove(k3, n3)
                            n0 -= n3
                        else:
                            n3 = rng.randint(1, 3)
                            res.add(k3, n3)
                            n0 += n3
                        ctx.check(res.elements_added == n0, f"element count of a counting {op} result that stays in use is not its starting count plus additions minus removals",
                                  got=res.elements_added, want=n0)
                    ctx.count("counting_set_operation_results_used_further")
        else:
            continue
        total = sum(out.values()) - eaten
        ctx.check(f.elements_added == total, f"elements_added is not the net sum of added minus removed amounts after step {step} ({case.ops[-1][0]})",
                  got=f.elements_added, want=total)
        ctx.count("counter_checks")
        if kind == "CountingBloomFilter":
            # the derived statistics are read after every call in some histories and only after every 2nd..5th in others (a value that
            # is remembered between two reads must still be right when several changes happened in between)
            if step % stats_every == 0:
                check_stats(ctx, f, f"after step {step} (statistics read every {stats_every} steps)", counting=True)
    case.nontrivial = removes > 0


# ------------------------------------------------------------------------------- cuckoo

def wl_cuckoo_failing(ctx, rng, case):
    """aimed at FAILED expansions / failed inserts (tiny tables, 1-2 swaps): after the CuckooFilterFullError every counter must still have its meaning"""
    _cuckoo_run(ctx, rng, case, failing=True)


def wl_cuckoo(ctx, rng, case):
    _cuckoo_run(ctx, rng, case, failing=False)


def _cuckoo_run(ctx, rng, case, failing):
    import probables as P

    cfg = ck.gen_cfg(rng)
    if failing:
        cfg.counting = rng.random() < 0.7
        if cfg.counting and cfg.err_bits and cfg.err_bits > 32:
            cfg.by_error_rate(32)  # the counting filter cannot hold fingerprints wider than its 32-bit cells
        cfg.auto_expand = rng.random() < 0.8
        cfg.capacity = rng.choice([1, 2, 2, 3, 4])
        cfg.bucket_size = rng.choice([1, 1, 2])
        cfg.max_swaps = rng.choice([1, 1, 2])
    keys = ck.with_zero_fp_keys(ctx, rng, cfg, ck.gen_keys(rng, cfg, rng.randint(3, 10) if not failing else rng.randint(5, 14)), p=0.12)
    if len(keys) < 2:
        return
    ops = []
    for _ in range(rng.randint(5, 16)):
        r = rng.random()
        if r < 0.62:
            ops.extend([("add", rng.choice(keys))] * (rng.choice([1, 1, 2, 3]) if cfg.counting else 1))
        elif r < 0.82:
            ops.append(("remove", rng.choice(keys)))
        elif r < 0.92:
            ops.append(("expand",))
        else:
            ops.append(("reload", rng.choice(["bytes", "path"])))
    ops = ops[:24]
    case.desc = dict(cfg.desc(), n_keys=len(keys))
    ctx.observe("structures", "CountingCuckooFilter" if cfg.counting else "CuckooFilter")
    for op in ops:
        case.op(*op)
    sc = bl.Scratch(ctx, case)
    stats = Counter()

    def oracle(f, model, i, op, outcome, before):
        where = f"after op {i} {op} -> {outcome[0]}"
        stats["counter_checks"] += 1
        slots = f.capacity * f.bucket_size
        if cfg.counting:
            bins = [b for bucket in f.buckets for b in bucket]
            total = sum(b.count for b in bins)
            if f.elements_added != total:
                ctx.fail(f"counting cuckoo elements_added is not the sum of all bin counts {where}", got=f.elements_added, want=total, decisions=list(rngscript.S.trace))
            if f.unique_elements != len(bins):
                ctx.fail(f"unique_elements is not the number of bins {where}", got=f.unique_elements, want=len(bins), decisions=list(rngscript.S.trace))
            if f.elements_added != model.total() or f.unique_elements != model.bins():
                ctx.fail(f"counters differ from the fingerprint model {where}", elements_added=f.elements_added, unique=f.unique_elements,
                         model_total=model.total(), model_bins=model.bins(), decisions=list(rngscript.S.trace))
            ctx.check(abs(f.load_factor() - len(bins) / slots) < 1e-12, f"load_factor() is not unique_elements / (capacity * bucket_size) {where}", got=f.load_factor())
        else:
            stored = sum(len(bucket) for bucket in f.buckets)
            if f.elements_added != stored:
                ctx.fail(f"cuckoo elements_added is not the number of stored fingerprints {where}", got=f.elements_added, want=stored, decisions=list(rngscript.S.trace))
            if stored != model.bins():
                ctx.fail(f"number of stored fingerprints differs from the fingerprint model {where}", got=stored, want=model.bins())
            ctx.check(abs(f.load_factor() - stored / slots) < 1e-12, f"load_factor() is not elements_added / (capacity * bucket_size) {where}", got=f.load_factor())

    def run():
        ck.run_history(ctx, P, cfg, keys, ops, sc, oracle, stats=stats)

    try:
        ex = rngscript.explore(run, 120 if ctx.tier == "quick" else 8000, sample_rng=_stdrandom.Random(rng.getrandbits(32)), extra_samples=20 if ctx.tier == "quick" else 200)
    finally:
        sc.cleanup()
    ctx.count("counter_checks", stats["counter_checks"])
    ctx.count("cuckoo.decisions_taken", ex.decisions)
    ctx.count("cuckoo.capacity_changes", stats["capacity_changes"])
    ctx.count("cuckoo.reloads", stats["reloads"])
    ctx.count("cuckoo.resolutions_executed", ex.runs + ex.sampled)
    ctx.count("cuckoo.failed_expansions_or_inserts", stats["failed_adds"] + stats["failed_expansions"])
    case.nontrivial = ex.decisions > 0 or stats["capacity_changes"] > 0


def wl_ccf_counts_at_limit(ctx, rng, case):
    """counting cuckoo filters LOADED from a saved image in which some bins hold counts at or just below 2^32-1 (the image of a very long
    history; crafting the image is the only practical way to get there): through further additions (which the filter may carry out or
    refuse), removals, an expansion and another reload, elements_added stays the sum of all bin counts and unique_elements the number of bins"""
    import random as stdrandom
    import struct

    import probables as P

    cap, bsz = rng.choice([(20, 2), (50, 4), (31, 3), (8, 4)])
    keys = [f"hot-{case.index}-{i}" for i in range(rng.randint(3, 8))]
    stdrandom.seed(rng.getrandbits(32))
    f = P.CountingCuckooFilter(capacity=cap, bucket_size=bsz, max_swaps=30)
    for kx in keys:
        for _ in range(rng.randint(1, 3)):
            f.add(kx)
    data = bytearray(bytes(f))
    hot = []
    for off in range(0, len(data) - 8, 8):
        fp, cnt = struct.unpack_from("<II", data, off)
        if fp and rng.random() < 0.6:
            struct.pack_into("<I", data, off + 4, 2**32 - 1 - rng.choice([0, 0, 1, 2, 3]))
            hot.append(fp)
    case.desc = {"kind": "counting cuckoo image with counts at the limit", "capacity": cap, "bucket_size": bsz, "n_keys": len(keys), "bins_at_the_limit": len(hot)}
    if not hot:
        return
    sc = bl.Scratch(ctx, case)
    try:
        def load(raw):
            if rng.random() < 0.5:
                return P.CountingCuckooFilter.frombytes(bytes(raw))
            p = sc.path("img")
            with open(p, "wb") as fh:
                fh.write(bytes(raw))
            return P.CountingCuckooFilter(filepath=p)

        def audit(g, where):
            bins = [b for bucket in g.buckets for b in bucket]
            total = sum(b.count for b in bins)
            ctx.check(g.elements_added == total, f"counting cuckoo elements_added is not the sum of all bin counts {where}", got=g.elements_added, want=total)
            ctx.check(g.unique_elements == len(bins), f"unique_elements is not the number of bins {where}", got=g.unique_elements, want=len(bins))
            ctx.check(all(0 < b.count <= 2**32 - 1 for b in bins), f"a bin count outside 1 .. 2^32-1 {where}")
            ctx.count("counter_checks")

        g = load(data)
        audit(g, "right after loading an image with counts at the limit")
        for step in range(rng.randint(6, 20)):
            kx = rng.choice(keys)
            r = rng.random()
            before = (g.elements_added, g.unique_elements)
            try:
                if r < 0.6:
                    what = "add"
                    g.add(kx)
                elif r < 0.85:
                    what = "remove"
                    g.remove(kx)
                elif r < 0.93:
                    what = "expand"
                    g.expand()
                else:
                    what = "reload"
                    g = load(bytes(g))
                refused = False
            except Exception as e:
                refused = True
                ctx.count("limit_image.calls_refused")
                ctx.check((g.elements_added, g.unique_elements) == before, f"a refused {what} ({type(e).__name__}) changed the counters (step {step})", before=before,
                          after=(g.elements_added, g.unique_elements))
            audit(g, f"after step {step} ({what}{', refused' if refused else ''}) on an image with counts at the limit")
        ctx.count("limit_image.cases")
        case.nontrivial = True
    finally:
        sc.cleanup()


# ------------------------------------------------------------------------------- quotient filter

def wl_quotient(ctx, rng, case):
    import probables as P
    from probables.exceptions import QuotientFilterError

    from .c04 import build_universe, cluster_count_full, K1

    q = rng.choice([3, 3, 4, 5])
    auto = rng.random() < 0.5
    U = build_universe(q, rng, per_quot=2)
    f = P.QuotientFilter(quotient=q, auto_expand=auto)
    S = set()
    case.desc = {"kind": "QuotientFilter", "quotient": q, "auto_expand": auto}
    ctx.observe("structures", "QuotientFilter")
    removes = 0
    others = []  # (filter, its set): filters that took part in a merge must keep THEIR counter consistent while the other one evolves
    for step in range(rng.randint(5, 50)):
        r = rng.random()
        if r < 0.55:
            h = rng.choice(U)
            case.op("add", h)
            try:
                f.add_alt(h)
                S.add(h)
            except QuotientFilterError:
                pass
        elif r < 0.88:
            h = rng.choice(sorted(S)) if S and rng.random() < 0.8 else rng.choice(U)
            case.op("remove", h)
            f.remove_alt(h)
            S.discard(h)
            removes += 1
        elif r < 0.95:
            q2 = rng.choice([None, f.quotient + 1, f.quotient - 1, 3, 4, 5])
            case.op("resize", q2)
            try:
                f.resize(q2)
            except QuotientFilterError:
                pass
        else:
            other = P.QuotientFilter(quotient=rng.choice([3, f.quotient, f.quotient]), auto_expand=True)
            S2 = set(rng.sample(U, rng.randint(0, 4)))
            for h in S2:
                other.add_alt(h)
            case.op("merge", len(S2), "into_empty" if not S else "")
            try:
                if rng.random() < 0.5:
                    f.merge(other)
                    S |= S2
                    others.append((other, set(S2)))
                else:
                    # merge the history's filter INTO the fresh one and continue with that one
                    other.merge(f)
                    others.append((f, set(S)))
                    f, S = other, S | S2
            except QuotientFilterError:
                S = set(f.get_hashes())
            ctx.count("quotient.merges")
        for o, So in others[-3:]:
            got = o.get_hashes()
            ctx.check(o.elements_added == len(got) == len(So) and sorted(got) == sorted(So),
                      f"a quotient filter that took part in an earlier merge no longer matches its own contents after step {step} (shared storage?)",
                      elements_added=o.elements_added, stored=len(got), expected=len(So))
            ctx.count("aliasing_checks")
        stored = f.get_hashes()
        where = f"after step {step} ({case.ops[-1]})"
        ctx.check(f.elements_added == len(stored), f"quotient filter elements_added is not the number of stored hashes {where}", got=f.elements_added, want=len(stored))
        ctx.check(len(stored) == len(S), f"number of stored hashes differs from the set model {where}", got=len(stored), want=len(S))
        ctx.check(abs(f.load_factor - len(stored) / f.size) < 1e-12, f"load_factor is not elements_added / size {where}", got=f.load_factor)
        ctx.count("counter_checks")
    if removes:
        ctx.count("quotient.histories_with_removals")
    case.nontrivial = removes > 0


PROP = Prop(
    "C14",
    "exploration",
    rule=("compact histories over every structure: bloom (plain / on-disk incl. close+reopen from other directories, clear, reload, union, intersection), "
          "expanding / rotating (duplicates, forced adds, push, reload), counting (counting Bloom and the five count-min classes with legitimate removals, "
          "reload, join), cuckoo (plain and counting, re-executed over resolutions of the eviction choices, expand, reload), quotient (add / remove / resize / merge). "
          "The counter is compared after every single step. Non-trivial = the history contains an add (Bloom family) / a removal (counting, quotient) / an eviction "
          "decision or expansion (cuckoo). Distinct by hash of (parameters, operations)."),
    workloads=[
        Workload("bloom", wl_bloom, quick=500, thorough=120000),
        Workload("bloom_large_dense", wl_bloom_large_dense, quick=5, thorough=80),
        Workload("expanding", wl_expanding, quick=300, thorough=20000),
        Workload("counting", wl_counting, quick=600, thorough=120000),
        Workload("cuckoo", wl_cuckoo, quick=250, thorough=6000),
        Workload("cuckoo_failing", wl_cuckoo_failing, quick=200, thorough=5000),
        Workload("quotient", wl_quotient, quick=400, thorough=90000),
        Workload("ccf_counts_at_limit", wl_ccf_counts_at_limit, quick=60, thorough=6000),
    ],
    assumptions=["statistics formulas evaluated in 60-digit decimal arithmetic; either neighbour accepted when the exact value is within 1e-9 of an integer; "
                 "a completely set array (documented sentinel -1) is outside the formula and skipped",
                 ],
    required=["counter_checks", "statistics_checks", "set_operation_count_checks", "ondisk_reopens", "joins", "cuckoo.decisions_taken", "cuckoo.capacity_changes",
              "cuckoo.reloads", "cuckoo.failed_expansions_or_inserts", "quotient.histories_with_removals", "quotient.merges", "aliasing_checks",
              "counting_set_operation_count_checks", "counting_set_operation_results_with_pinned_counters", "limit_image.cases", "limit_image.calls_refused"],
)
