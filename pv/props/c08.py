"""C08 - counting filters count exactly and removal undoes addition.

Counting Bloom: history + outstanding multiset; lower bound for every key after every call, and a history-independence oracle:
below saturation the exported bytes must equal those of a FRESH filter fed exactly the outstanding multiset (this is "removing
what was added restores the earlier exported state" in its general form and pins every cell and the element counter).
Counting cuckoo: exact counts per fingerprint for every key after every call, under all resolutions of the eviction choices.
"""
import random as _stdrandom
from collections import Counter

from .. import bl, ck, gen, refimpl, rngscript
from ..core import Prop, Workload


def fresh_with(P, est, rate, hf, outstanding, order):
    g = P.CountingBloomFilter(est, rate, **bl.kw_hash(hf))
    for k in order:
        if outstanding[k] > 0:
            g.add(k, outstanding[k])
    return g


def wl_cbf(ctx, rng, case):
    import probables as P

    est, rate = rng.choice([(1, 0.5), (2, 0.3), (2, 0.05), (3, 0.2), (5, 0.1), (5, 0.01), (10, 0.05), (25, 0.01), (10, 0.001)])
    if rng.random() < 0.35:
        est, rate, _, _ = gen.bloom_geometry(rng, max_bits=600)  # any small sizing, not only the nine above
    keys = gen.universe(rng, rng.randint(2, 14))
    hname, hf = gen.pick_hash(rng, keys)
    f = P.CountingBloomFilter(est, rate, **bl.kw_hash(hf))
    m, kk = f.number_bits, f.number_hashes
    case.desc = {"kind": "counting-bloom", "est": est, "rate": rate, "bits": m, "hashes": kk, "hash": hname, "n_keys": len(keys)}
    ctx.observe("hash_kinds", hname)
    coincide = any(len(set(h % m for h in f.hashes(k)[:kk])) < kk for k in keys)
    if coincide:
        ctx.count("cases_with_coinciding_positions_inside_a_key")
    out = Counter({k: 0 for k in keys})
    removes = 0
    quiet = rng.choice([0, 0, 0, 2, 3, 5])  # a quarter of the histories: oracles only after every 2nd..5th call, nothing reads in between
    nsteps = rng.randint(4, 40)
    for step in range(nsteps):
        if not quiet:
            bl.noise_reads(ctx, rng, f, keys)
        r = rng.random()
        live = [k for k in keys if out[k] > 0]
        if r < 0.5 or not live:
            k = rng.choice(keys)
            n = rng.choice([1, 1, 1, 2, 3, 9, 1000])
            case.op("add", k, n)
            if rng.random() < 0.15:
                arg, cp = bl.alt_arg(ctx, f.hashes(k, kk + rng.choice([0, 0, 0, 1, 3, 5])))  # the key hashed for this or a deeper structure
                ret = f.add_alt(arg, n)
                bl.arg_unchanged(ctx, arg, cp, "add_alt")
                ctx.count("op.add_alt_deeper_list")
            else:
                ret = f.add(k, n) if n != 1 or rng.random() < 0.5 else f.add(k)
            out[k] += n
            ctx.count("op.add")
        elif r < 0.85:
            k = rng.choice(live)
            n = rng.randint(1, out[k]) if rng.random() < 0.7 else out[k]
            case.op("remove", k, n)
            if rng.random() < 0.15:
                arg, cp = bl.alt_arg(ctx, f.hashes(k, kk + rng.choice([0, 0, 0, 1, 3, 5])))
                ret = f.remove_alt(arg, n)
                bl.arg_unchanged(ctx, arg, cp, "remove_alt")
                ctx.count("op.remove_alt_deeper_list")
            else:
                ret = f.remove(k, n) if n != 1 or rng.random() < 0.5 else f.remove(k)
            out[k] -= n
            removes += 1
            ctx.count("op.remove")
        elif r < 0.89:
            # a second object derived from this one (union with an empty or a fed filter, in either role; a reload) is then
            # changed: what THIS filter reports must not move (checked by the probes and the history-independence oracle below)
            g = P.CountingBloomFilter(est, rate, **bl.kw_hash(hf))
            how = rng.choice(["union(empty)", "empty.union", "union(fed)", "fed.union", "intersection(self)", "reload"])
            gout = Counter()
            if "fed" in how:
                kg, ng = rng.choice(keys), rng.randint(1, 3)
                g.add(kg, ng)
                gout[kg] += ng
            d = {"union(empty)": lambda: f.union(g), "union(fed)": lambda: f.union(g), "empty.union": lambda: g.union(f), "fed.union": lambda: g.union(f),
                 "intersection(self)": lambda: f.intersection(f), "reload": lambda: P.CountingBloomFilter.frombytes(bytes(f), **bl.kw_hash(hf))}[how]()
            case.op("derive-and-change", how)
            if d is None:
                continue
            if how != "intersection(self)" and d.elements_added >= 0 and rng.random() < 0.6:
                # the derived filter is a counting filter in its own right (its element count may be an ESTIMATE far below the additions it
                # holds): single removals, one after the other, and after each of them no key is reported below its outstanding additions
                dout = out + gout
                for _ in range(rng.randint(3, 14)):
                    live = [kx for kx in keys if dout[kx] > 0 and len(set(h % d.number_bits for h in d.hashes(kx))) == d.number_hashes]
                    if not live:
                        break
                    kx = rng.choice(live)
                    d.remove(kx, 1)
                    dout[kx] -= 1
                    for ky in keys:
                        ctx.counters["oracle_evaluations"] += 1
                        if d.check(ky) < dout[ky]:
                            ctx.fail(f"a counting filter derived by {how} reports a key below its outstanding additions after a single removal", key=ky, reported=d.check(ky),
                                     outstanding=dout[ky], element_count=d.elements_added)
                ctx.count("derived_counting_filters_counted_down")
                continue
            for k2 in rng.sample(keys, min(len(keys), 3)):
                if out[k2] > 0 and rng.random() < 0.6:
                    d.remove(k2, out[k2])
                else:
                    d.add(k2, rng.randint(1, 4))
            if rng.random() < 0.3:
                d.clear()
            ctx.count("derived_objects_changed")
        elif r < 0.93:
            # add then remove the same amount: the exported state must be exactly restored
            k = rng.choice(keys)
            n = rng.choice([1, 2, 5, 77])
            before = bytes(f)
            case.op("add+remove", k, n)
            f.add(k, n)
            f.remove(k, n)
            ctx.check(bytes(f) == before, f"add(k,{n}) followed by remove(k,{n}) did not restore the exported state (step {step})", key=k)
            ctx.count("add_remove_roundtrips")
        else:
            # removing a key the filter reports absent changes nothing and says so
            absent = [k for k in keys if f.check(k) == 0]
            if not absent:
                continue
            k = rng.choice(absent)
            before = bytes(f)
            case.op("remove-absent", k)
            ret = f.remove(k, rng.choice([1, 3]))
            ctx.check(ret == 0, f"removing a key reported absent returned {ret!r} (step {step})", key=k)
            ctx.check(bytes(f) == before, f"removing a key reported absent changed the filter (step {step})", key=k)
            ctx.count("absent_removals")
        where = f"after step {step} ({case.ops[-1]})"
        if quiet and step % quiet and step != nsteps - 1:
            ctx.count("steps_without_any_read")
            continue
        for k in ctx.alternating(keys):
            ctx.counters["oracle_evaluations"] += 1
            c = f.check(k)
            if c < out[k]:
                ctx.fail(f"count below the key's outstanding additions {where}", key=k, count=c, outstanding=out[k])
            if (k in f) != (c > 0):
                ctx.fail(f"`in` disagrees with check() {where}", key=k)
            # the key hashed once for a DEEPER structure (prefix-stable strategies exist for exactly this): the count read through
            # check_alt with that list must not fall below the outstanding additions either
            arg, cp = bl.alt_arg(ctx, f.hashes(k, kk + step % 4))  # exactly this structure's depth every fourth time, deeper otherwise
            deep = f.check_alt(arg)
            bl.arg_unchanged(ctx, arg, cp, "check_alt")
            if deep < out[k]:
                ctx.fail(f"check_alt() given a deeper hash list reports a count below the key's outstanding additions {where}", key=k, count=deep, outstanding=out[k], check=c)
        order = list(keys)
        rng.shuffle(order)
        g = fresh_with(P, est, rate, hf, out, order)
        if bytes(f) != bytes(g):
            a, b = refimpl.parse_bloom(bytes(f), counting=True), refimpl.parse_bloom(bytes(g), counting=True)
            diff = [(i, x, y) for i, (x, y) in enumerate(zip(a["cells"], b["cells"])) if x != y][:8]
            ctx.fail(f"exported state differs from a fresh filter fed exactly the outstanding multiset {where}", differing_cells=diff,
                     counter=(a["added"], b["added"]), outstanding={str(k): v for k, v in out.items() if v})
        ctx.count("history_independence_checks")
    case.nontrivial = removes >= 1


def wl_ccf_refill(ctx, rng, case):
    """counting cuckoo: fill the buckets (bins spill over to their alternate bucket), remove some keys down to zero (freeing slots in
    first buckets), then add earlier keys AGAIN: the count must go up in the existing bin, wherever it sits"""
    _ccf_run(ctx, rng, case, refill=True)


def wl_ccf(ctx, rng, case):
    _ccf_run(ctx, rng, case, refill=False)


def wl_ccf_big_growing(ctx, rng, case):
    """a counting cuckoo filter of 500 .. 2000 bins (wide or narrow buckets) that may grow on its own, filled with distinct keys far beyond
    its first size: from 60 % load on, the key just added - and a sample of the earlier ones - must report exactly its outstanding
    additions after every call (crowded big tables, the expansions they trigger, and everything placed right before and after them)"""
    import random as stdrandom

    import probables as P

    cap, bsz = rng.choice([(64, 8), (128, 4), (100, 6), (40, 16), (300, 2), (520, 1), (256, 4)])
    swaps = rng.choice([5, 20, 100, 500])
    rate = rng.choice([2, 2, 3])
    stdrandom.seed(rng.getrandbits(32))
    f = P.CountingCuckooFilter(capacity=cap, bucket_size=bsz, max_swaps=swaps, expansion_rate=rate, auto_expand=True, finger_size=4)
    cfg = ck.Cfg(True, cap, bsz, swaps, 4, True, rate, "library_default", None)
    case.desc = {"kind": "big growing counting cuckoo", "capacity": cap, "bucket_size": bsz, "max_swaps": swaps, "expansion_rate": rate}
    out = Counter()   # outstanding additions per raw fingerprint
    keys = []
    n = int(cap * bsz * rng.choice([1.1, 1.6, 2.5]))
    caps = {cap}
    for i in range(n):
        key = f"grow-{case.index}-{i}" if i % 7 else b"grow-%d-%d" % (case.index, i)
        fp = cfg.raw_fp(key)
        if fp == 0:
            continue
        f.add(key)
        out[fp] += 1
        keys.append(key)
        if rng.random() < 0.1:
            f.add(key)
            out[fp] += 1
        caps.add(f.capacity)
        if len(keys) < 0.6 * cap * bsz:
            continue
        probe = [key] + ([rng.choice(keys) for _ in range(3)] if i % 5 else rng.sample(keys, min(len(keys), 40)))
        for kx in probe:
            ctx.counters["oracle_evaluations"] += 1
            got, want = f.check(kx), out[cfg.raw_fp(kx)]
            if got != want:
                ctx.fail(f"counting cuckoo filter reports {got} for a key whose fingerprint has {want} outstanding additions, after addition #{i} of a big growing table "
                         f"(capacity now {f.capacity}, {len(keys)} keys)", key=kx, capacities_seen=sorted(caps))
    ctx.check(f.elements_added == sum(out.values()), "elements_added of a big growing counting cuckoo filter is not the number of outstanding additions", got=f.elements_added, want=sum(out.values()))
    for kx in rng.sample(keys, min(len(keys), 60)):
        fp = cfg.raw_fp(kx)
        if out[fp]:
            ctx.check(f.remove(kx) is True, "removal of a key with outstanding additions was refused in a big growing table", key=kx)
            out[fp] -= 1
            ctx.check(f.check(kx) == out[fp], "count after a removal in a big growing table is not one less", key=kx, got=f.check(kx), want=out[fp])
    ctx.count("ccf.big_growing_tables")
    ctx.count("ccf.big_growing_expansions", len(caps) - 1)
    case.nontrivial = len(caps) > 1


def wl_ccf_after_refusals(ctx, rng, case):
    """counting cuckoo: a crowded table (bins spilled into second buckets), some keys removed completely (free slots in first buckets), then
    expansions that are REFUSED and rolled back (non-growing rate / one or two swaps), then more adds, removals and an explicit expansion:
    every count exact after every call, whatever a refused call restored or forgot"""
    _ccf_run(ctx, rng, case, refill="refusals")


def _ccf_run(ctx, rng, case, refill):
    import probables as P

    if case.index == 0 and refill != "refusals":
        # one very hot key: a count beyond two bytes, on a table that kicks and expands around it
        f = P.CountingCuckooFilter(capacity=2, bucket_size=1, max_swaps=3, auto_expand=True, finger_size=2)
        n = 66000 if not refill else 65536
        for i in range(n):
            f.add("hot")
            if i in (254, 255, 256, 65534, 65535):
                ctx.check(f.check("hot") == i + 1, f"counting cuckoo filter reports {f.check('hot')} after {i + 1} additions of one key")
                ctx.counters["oracle_evaluations"] += 1
        for j in range(6):
            f.add(f"other{j}")  # kicks / expansions move the hot bin around
        ctx.check(f.check("hot") == n, "count of a hot key changed when other keys were added", got=f.check("hot"), want=n)
        g = P.CountingCuckooFilter.frombytes(bytes(f))
        g.fingerprint_size = 2
        ctx.check(g.check("hot") == n, "count of a hot key differs after a reload", got=g.check("hot"), want=n)
        f.remove("hot")
        ctx.check(f.check("hot") == n - 1, "removing one of many additions of a hot key", got=f.check("hot"), want=n - 1)
        ctx.count("ccf.hot_key_beyond_two_bytes")
        case.desc = {"kind": "one key added 65 536+ times"}
        case.nontrivial = True
        return

    if case.index in (1, 2, 3) and refill != "refusals":
        # a BIG table (more slots than any block a loader might read at once, bucket sizes that divide no power of two) reloaded in the
        # middle of its history: every count exact before and after, the history continues on the loaded filter
        cap, bsz = rng.choice([(3000, 5), (4000, 3), (2500, 7), (10000, 3), (9000, 1), (3000, 6)])
        f = P.CountingCuckooFilter(capacity=cap, bucket_size=bsz, max_swaps=100, auto_expand=False, finger_size=4)
        model = Counter()
        ks = [f"big-{case.index}-{i}" for i in range(min(1500, cap * bsz // 6))]
        sc0 = bl.Scratch(ctx, case)
        try:
            for phase in range(3):
                for _ in range(len(ks)):
                    k = rng.choice(ks)
                    if model[k] and rng.random() < 0.25:
                        f.remove(k)
                        model[k] -= 1
                    else:
                        f.add(k)
                        model[k] += 1
                if phase < 2:
                    if phase == 0:
                        f = P.CountingCuckooFilter.frombytes(bytes(f))
                    else:
                        p0 = sc0.path("big")
                        f.export(p0)
                        f = P.CountingCuckooFilter(filepath=p0)
                    f.fingerprint_size, f.auto_expand = 4, False
                bad = [(k, f.check(k), model[k]) for k in ks if f.check(k) != model[k]]
                ctx.counters["oracle_evaluations"] += len(ks)
                ctx.check(not bad, f"counts of a {cap}x{bsz} counting cuckoo filter differ from the outstanding additions (phase {phase}: {'after reload' if phase < 2 else 'end'})", first=bad[:5], wrong=len(bad))
            ctx.count("ccf.big_tables_reloaded_mid_history")
        finally:
            sc0.cleanup()
        case.desc = {"kind": "big table reloaded mid-history", "capacity": cap, "bucket_size": bsz}
        case.nontrivial = True
        return
    cfg = ck.gen_cfg(rng, counting=True)
    if refill == "refusals":
        cfg = ck.gen_cfg(rng, counting=True, allow_rate=False)
        cfg.capacity = rng.choice([2, 3, 4, 5])
        cfg.bucket_size = rng.choice([1, 2, 2, 3])
        cfg.max_swaps = rng.choice([1, 1, 2, 3])
        cfg.auto_expand = True
        cfg.expansion_rate = rng.choice([1, 1, 2])
        keys = ck.gen_keys(rng, cfg, rng.randint(6, 12))
        if len(keys) < 4:
            return
        ops = []
        for k in keys[: cfg.capacity * cfg.bucket_size]:
            ops.extend([("add", k)] * rng.choice([1, 2]))
        for k in rng.sample(keys, 2):
            ops.extend([("remove", k)] * 2)
        ops.append(("rate", 1))
        for k in keys:
            ops.append(("add", k))
            if rng.random() < 0.3:
                ops.extend([("remove", rng.choice(keys))] * 2)  # free slots again while expansions keep being refused
        ops.append(("expand",))
        ops.append(("rate", rng.choice([2, 3])))
        for k in rng.sample(keys, 3):
            ops.append(("remove", k))
        ops.append(("expand",))
        for k in rng.sample(keys, 3):
            ops.append(("add", k))
        refill = True
        prebuilt = ops
    else:
        prebuilt = None
    if prebuilt is not None:
        pass
    elif refill:
        cfg.capacity = rng.choice([2, 3, 4, 5, 8])
        cfg.bucket_size = rng.choice([1, 2, 2, 3])
        cfg.max_swaps = rng.choice([1, 2, 4])
    if prebuilt is None:
        keys = ck.gen_keys(rng, cfg, rng.randint(3, 10) if not refill else rng.randint(5, 14))
    if prebuilt is None:
        keys = ck.with_zero_fp_keys(ctx, rng, cfg, keys, p=0.0)  # (p=0: only the small-fingerprint part of the helper; zero fingerprints follow below)
    if prebuilt is None and cfg.hf is None and not cfg.err_bits and rng.random() < 0.2:
        # keys whose raw fingerprint is 0 (the value that marks an empty slot in the export format, so the library stores another one):
        # they form ONE fingerprint class like any other colliding keys.  Keys with raw fingerprint 1 are left out, so that whatever
        # value the library uses instead of 0 - it documents 1 - meets no other key of the universe.
        cfg.finger_size = 1
        zs = [k for k in (f"z{i}" for i in range(3000)) if cfg.raw_fp(k) == 0][: rng.randint(1, 3)]
        keys = [k for k in keys if cfg.raw_fp(k) not in (0, 1)] + zs
        rng.shuffle(keys)
        if zs:
            ctx.count("ccf.universes_with_zero_fingerprint_keys")
    if len(keys) < 2:
        return
    # histories with repeated adds so that bins with count > 1 get kicked and re-inserted through expansions
    ops = []
    if prebuilt is not None:
        ops = prebuilt
    elif refill:
        for k in keys:
            ops.extend([("add", k)] * rng.choice([1, 1, 2]))
        for _ in range(rng.randint(3, 10)):
            k = rng.choice(keys)
            ops.extend([("remove", k)] * rng.choice([1, 2, 3]))
            for k2 in rng.sample(keys, min(3, len(keys))):
                ops.append(("add", k2))
        ops = ops[:48]
        for _ in range(rng.choice([0, 1, 2, 3])):
            ops.insert(rng.randint(len(keys), len(ops)), ("expand",))  # explicit expansions of a crowded table (some are refused)
    for _ in range(rng.randint(5, 16) if not refill else 0):
        r = rng.random()
        if r < 0.62:
            k = rng.choice(keys)
            ops.extend([("add", k)] * rng.choice([1, 1, 2, 3]))
        elif r < 0.85:
            ops.append(("remove", rng.choice(keys)))
        elif r < 0.93:
            ops.append(("expand",))
        elif r < 0.96:
            ops.append(("badset", rng.choice([0, 5, 9, -1, 4.5])))  # a fingerprint size outside 1..4 bytes: refused, nothing changes
            ctx.count("ccf.refused_settings_inside_histories")
        else:
            ops.append(("reload", rng.choice(["bytes", "path"])))
    ops = ops[:22] if not refill else ops
    if rng.random() < 0.2:
        # a hot key: hundreds of additions of one stored key (counts beyond one and two bytes), then removals and more additions
        hot = rng.choice(keys)
        at = rng.randint(0, len(ops))
        ops[at:at] = [("add", hot), ("burst", hot, rng.choice([255, 256, 300, 600])), ("remove", hot), ("add", hot), ("add", hot)]
        ctx.count("ccf.histories_with_a_hot_key")
    case.desc = dict(cfg.desc(), n_keys=len(keys), kind="fill, remove to zero, re-add" if refill else "mixed")
    for op in ops:
        case.op(*op)
    sc = bl.Scratch(ctx, case)
    stats = Counter()

    def oracle(f, model, i, op, outcome, before):
        where = f"after op {i} {op} -> {outcome[0]}"
        for k in ctx.alternating(keys):
            ctx.counters["oracle_evaluations"] += 1
            got, want = f.check(k), model.count(k)
            if got != want:
                ctx.fail(f"counting cuckoo filter reports {got} for a key whose fingerprint has {want} outstanding additions {where}", key=k,
                         fingerprint=cfg.raw_fp(k), decisions=list(rngscript.S.trace), capacity=f.capacity)
            if (k in f) != (want > 0):
                ctx.fail(f"`in` disagrees with the outstanding count {where}", key=k)
        stats["probes"] += 1
        if op[0] == "remove":
            want = before[cfg.raw_fp(op[1])] > 0
            if bool(outcome[1]) != want:
                ctx.fail(f"remove returned {outcome[1]!r} although the fingerprint was {'present' if want else 'absent'} {where}", key=op[1])
            if not want:
                stats["absent_removals"] += 1

    def run():
        f, model = ck.run_history(ctx, P, cfg, keys, ops, sc, oracle, stats=stats)
        # removing a key reported absent changes nothing and says so
        for k in keys:
            if f.check(k) == 0:
                snap = bytes(f)
                ret = f.remove(k)
                if ret not in (False, 0) or bytes(f) != snap:
                    ctx.fail("removing a key reported absent changed the counting cuckoo filter or did not say so", key=k, returned=ret)
                stats["absent_removals"] += 1
                break

    try:
        ex = rngscript.explore(run, (25 if prebuilt is not None else (300 if not refill else 80)) if ctx.tier == "quick" else (600 if prebuilt is not None else (15000 if not refill else 3000)), sample_rng=_stdrandom.Random(rng.getrandbits(32)),
                               extra_samples=30 if ctx.tier == "quick" else 300)
    finally:
        sc.cleanup()
    ctx.count("ccf.resolutions_executed", ex.runs + ex.sampled)
    ctx.count("ccf.decisions_taken", ex.decisions)
    ctx.count("ccf.probes", stats["probes"])
    ctx.count("ccf.capacity_changes", stats["capacity_changes"])
    ctx.count("ccf.failed_adds", stats["failed_adds"])
    ctx.count("absent_removals", stats["absent_removals"])
    if ex.exhaustive and ex.runs > 1:
        ctx.count("ccf.histories_explored_exhaustively_with_choices")
    case.nontrivial = ex.decisions > 0 or stats["capacity_changes"] > 0


PROP = Prop(
    "C08",
    "exploration",
    rule=("cbf: counting Bloom filters with 2..150 cells, every hash strategy of the zoo (incl. hand-written ones whose positions coincide inside one key and "
          "across keys), histories of add(k,n) / remove(k,n <= outstanding) / add+remove / removal of absent keys; ccf: counting cuckoo filters on tiny tables "
          "with repeated adds, removes, expansions and reloads, re-executed for every resolution of the eviction choices below the leaf cap (300 quick / 15 000 "
          "thorough). Non-trivial = at least one legitimate removal (cbf) / at least one eviction decision or expansion (ccf). Distinct by hash of (parameters, operations)."),
    workloads=[
        Workload("cbf", wl_cbf, quick=1200, thorough=80000),
        Workload("ccf", wl_ccf, quick=250, thorough=3500),
        Workload("ccf_refill", wl_ccf_refill, quick=150, thorough=2200),
        Workload("ccf_after_refusals", wl_ccf_after_refusals, quick=300, thorough=2500),
        Workload("ccf_big_growing", wl_ccf_big_growing, quick=14, thorough=280),
    ],
    assumptions=["below saturation; removals never exceed the key's outstanding count",
                 "history independence compares the library with itself on another history (fresh filter fed the outstanding multiset); cell semantics are pinned by C06/C16",
                 "cuckoo keys with raw fingerprint 0 are excluded (C05 covers them)"],
    required=["history_independence_checks", "cases_with_coinciding_positions_inside_a_key", "absent_removals", "add_remove_roundtrips",
              "ccf.probes", "ccf.decisions_taken", "ccf.capacity_changes"],
)
