#!/usr/bin/env python3
"""Regenerates /verif/MANIFEST.json from the table below (keeps it schema-valid at all times)."""
import json
import os
import sys

ROOT = os.path.dirname(os.path.dirname(os.path.realpath(__file__)))

# id -> (category, technique, level text, level note, design ref)
T = {
    "C01": ("exploration", "runtime monitor: history + shadow key set, probed after every call; bit-monotonicity monitor on exported arrays",
            "Real Bloom / on-disk / expanding filters are driven through random and boundary-aimed histories (add, push, union, every "
            "export/load channel, close/reopen) over a zoo of hash strategies and geometries covering all residues of number_bits mod 8; "
            "after every call every key ever added is probed through check and `in`, and exported bit arrays are checked to be monotone. "
            "Held-on-what-was-executed, not a proof.",
            "trusts the harness's shadow set and the Python interpreter; universes are small (<= 60 keys) so every key is probed after every step", "4/C01"),
    "C02": ("exploration", "runtime monitor: history + true-count model, bounds and collision-free exactness after every call",
            "Count-min sketches of width 1..8 (heavy collisions) and larger (every width 1..300 and 2^e, 2^e+-1 up to 2^20 in a sweep), depth 1..6, all hash strategies, "
            "histories of add/remove with legitimate removals, interleaved read-only calls and joins with a second sketch that is changed afterwards; after every call every universe key is checked for true <= estimate <= total, exactness when it shares no counter, and the "
            "returned value against an immediate check().",
            "true counts and the shares-no-counter predicate are computed by the harness from the public hashes(); totals stay below 2^31-1", "4/C02"),
    "C03": ("exploration", "runtime monitor under enumerated internal random choices (scripted stdlib random, DFS over eviction decisions) + fingerprint-level model",
            "Cuckoo and counting cuckoo filters on tiny tables; the library's random.choice/randint calls are scripted from outside and ALL "
            "resolutions are enumerated by DFS for bounded histories (sampled beyond the bound); after every call, including ones that raised "
            "CuckooFilterFullError, every model key is probed. A crowd workload keeps several filters with different hash strategies alive at once "
            "(interleaved histories, one bulk filter of 70 000+ keys) and probes every model after every call.",
            "the fingerprint model uses an independent FNV-1a; enumeration is complete only for the histories whose decision tree is below the leaf cap (reported)", "4/C03"),
    "C04": ("exploration", "runtime monitor: history + set model with full probe after every call, BFS over reachable layouts for q=3, line-step budget for termination",
            "Quotient filters q=3..6 (completely full tables up to q=11) are driven with add/remove/resize/merge over universes built to form runs, clusters, shifted runs and wrap-around; "
            "after every call check_alt of every universe hash, sorted get_hashes() and elements_added are compared with a Python set; each call runs under "
            "a sys.monitoring line budget so non-termination is observed, not waited for.",
            "model is a Python set of ints; removals on completely full single-cluster tables (the former known finding K1, repaired in /repo) are executed and counted separately; a wall-clock watchdog only triggers a re-run under the line budget", "4/C04"),
    "C05": ("exploration", "runtime monitor: differential original vs reload through every channel, all queries and accessors, re-export identity",
            "All 12 exportable classes in states after growth, rotation, eviction, removal and saturation are exported through bytes, file path, file object and hex, "
            "reloaded through the class they came from, and compared on every query, accessor and on re-exported bytes.",
            "values the format does not store are re-supplied exactly as the statement lists; float32-stored rates compared after narrowing", "4/C05"),
    "C06": ("translation_validation", "differential against an independent C reference reader/writer built with ASan+UBSan, plus independent Python format parsers",
            "Every exported file is a program for an independent C reader (Bloom, counting Bloom, count-min min/mean/mean-min) compiled with "
            "-fsanitize=address,undefined -fno-sanitize-recover; every history is a program for independent writers (C and Python); bytes and answers must agree exactly.",
            "the C reference was written from the documented layout, not from the library; clang-14 sanitizers; text keys are ASCII", "4/C06"),
    "C07": ("exploration", "runtime monitor: parameter sweep against exact-arithmetic (60-digit decimal) sizing formulas",
            "Sweeps (n, p) pairs, confidence/error pairs and cuckoo error rates through the real constructors and loaders and compares the derived "
            "geometry with formulas recomputed independently in high-precision arithmetic; reload stability checked on the same objects.",
            "1e-9 relative slack at ceil/round breakpoints; float32 narrowing of p as the statement says", "4/C07"),
    "C08": ("exploration", "runtime monitor: history + outstanding multiset; history-independence oracle (fresh filter fed the outstanding multiset)",
            "Counting Bloom and counting cuckoo filters on tiny geometries with coinciding positions; after every call counts are compared with the outstanding "
            "multiset and exported bytes with those of a fresh filter fed exactly that multiset; scripted eviction choices for the cuckoo variant.",
            "below saturation; removals never exceed the outstanding count", "4/C08"),
    "C09": ("exploration", "runtime monitor: history + FIFO growth model on the parsed export stream",
            "Expanding Bloom filters with est_elements 1..6 and 25 through add/duplicate/forced/push/reload histories, plus every est_elements 1..400 and a grid up to 2000 across the growth boundaries; per-filter counts are parsed "
            "independently from the exported stream after every call and compared with a FIFO growth model.",
            "effectiveness of an add is decided by the harness before the call from the filter's own check()", "4/C09"),
    "C10": ("exploration", "runtime monitor: history + FIFO window model (lower bound) and structural bounds",
            "Rotating Bloom filters est 1..6, queue 1..5 through add/duplicate/forced/push/pop/reload, plus every est_elements 1..320 with queue 1..3 across a full rotation; after every call queue bounds, per-filter counts and "
            "the retention window of every tracked key are checked.",
            "only the lower bound of retention is asserted; explicit pop/push void the window for older keys", "4/C10"),
    "C11": ("fault_enumeration", "crash-point enumeration: sys.monitoring LINE snapshots of the backing file at every executed library line; real SIGKILL at every armed line (thorough)",
            "The backing file of an on-disk Bloom filter is read through an independent descriptor at every executed library source line during add/close/export "
            "and validated against a model of completed additions; the thorough tier also kills a child process with SIGKILL at every line event of scripted histories "
            "and validates and reopens what is left.",
            "process kill (page cache survives), not power loss; snapshot == what a kill at that line leaves, validated by the real-kill tier", "4/C11"),
    "C12": ("exploration", "runtime monitor: differential combined structure vs single-stream structure (all cells)",
            "Union/join of two same-geometry structures in random unsaturated states is compared cell by cell with one structure fed both streams; "
            "operands in memory and on disk in both positions.",
            "unsaturated states only, as the statement says", "4/C12"),
    "C13": ("exploration", "runtime monitor: pairwise algebra (AND, popcount ratio), compatibility rules table, operand immutability snapshots",
            "Pairs of compatible and incompatible filters/sketches; intersection and Jaccard recomputed independently from the exported arrays; "
            "operands snapshotted before and after.",
            "different hash function = differs on the library's probe key; counting/plain mixes are outside the claim", "4/C13"),
    "C14": ("exploration", "runtime monitor: counter checked after every step of all-structure histories against shadow counts; statistics against independent formulas",
            "A compact workload over every structure re-derives the documented meaning of elements_added (and unique_elements, load factors, Bloom statistics) "
            "independently after every single step, including removals, expansions, resizes, joins, reloads and reopen.",
            "formulas evaluated in exact rational/decimal arithmetic with 1e-9 slack", "4/C14"),
    "C15": ("exploration", "icontract class invariant on the real cuckoo classes after every public call, under scripted eviction choices",
            "icontract.invariant attaches a table well-formedness predicate to CuckooFilter and CountingCuckooFilter in place; the C03 histories (with enumerated "
            "eviction choices) and loaded tables run under it; evaluation counts are reported and zero evaluations is inconclusive.",
            "candidate buckets computed independently from the fingerprint with the supplied hash; invariants are evaluated at quiescent points (after public calls)", "4/C15"),
    "C16": ("exploration", "runtime monitor: limit histories against a saturating cell model",
            "Short histories with amounts around and far beyond the limits drive cells to, across and back from saturation; every cell, the total, "
            "the return value and export/load identity are checked after each call; a call that raises must leave no cell changed.",
            "a counting-Bloom cell addressed m times by one key may end anywhere between old+n and old+m*n (clamped)", "4/C16"),
    "C17": ("exploration", "runtime monitor: history + last-returned-estimate model of the tracking tables",
            "HeavyHitters and StreamThreshold on colliding and roomy sketches with universes larger than the table; after every call the table is compared "
            "with the model built from the values the calls returned.",
            "ties at the smallest tracked value may go either way", "4/C17"),
    "C18": ("exploration", "runtime monitor: exhaustive short keys against independent FNV-1a (Python and C), purity and prefix monitors",
            "All byte strings of length <= 2 and ASCII strings of length <= 2 (exhaustive), random longer keys, depths 1..8, 16 seeds; shipped and decorator-built "
            "strategies checked for purity, length, range, prefix stability and text/bytes agreement; a committed corpus of keys whose running FNV-1a state "
            "reaches the extremes of the 64-bit range (searched once against the reference), text in several normalisation forms, nested / sibling / very deep strategies.",
            "reference FNV-1a written from the published definition; published test vectors included", "4/C18"),
    "C19": ("exploration", "runtime monitor: observable-state snapshot before/after read-only calls; clear() vs fresh object incl. divergence under further history",
            "Every structure in random reachable states gets a batch of read-only calls; exported bytes, counters, tables (and the raw backing file) must be "
            "identical before and after (cheap accessors are read before anything is exported); refused exports and refused merges count as reads; sketches and in-memory "
            "Bloom filters are also compared with an unread TWIN of the same history after both received the same further updates; after clear() the object is compared "
            "with a fresh one and both are fed the same further history.",
            "observable state = what the public API exposes", "4/C19"),
    "C20": ("exploration", "runtime monitor: list model, exhaustive for sizes 1..20, random beyond",
            "Every operation at every index (incl. negative and out of range) from a set of base states for every size 1..20 is compared bit by bit with a Python list; "
            "random sequences up to size 70 and on block-sized arrays; point-read-only histories, arrays of 0.5 .. 2 M bits, dense arrays cleared, tens of thousands of clears.",
            "values are ints/bools; any of IndexError/ValueError/TypeError is a rejection", "4/C20"),
}

BUILT = os.environ.get("PV_BUILT", "").split() or [l.strip() for l in open(os.path.join(ROOT, "tools", "built.txt")) if l.strip()]

checks = []
na = []
for pid in sorted(T):
    cat, tech, text, note, ref = T[pid]
    if pid in BUILT:
        checks.append({
            "property_id": pid,
            "quick_cmd": f"./vcheck {pid} --tier quick",
            "thorough_cmd": f"./vcheck {pid} --tier thorough",
            "evidence_file": f"/verif/evidence/{pid}.json",
            "replay_cmd_template": f"./vcheck {pid} --replay {{path}}",
            "engine": "pv",
            "level_claimed": {"category": cat, "text": text, "design_ref": f"DESIGN.md section {ref}"},
            "level_note": note,
            "technique": tech,
        })
    else:
        na.append({"property_id": pid, "reason": "not claimed yet: the runtime monitor for this property is still being built (planned in DESIGN.md section 4)"})

m = {
    "version": 1,
    "setup_cmd": "./setup.sh",
    "hooks": {
        "guard": "PYPROBABLES_VERIF",
        "enable": "no source hooks: monitors attach from outside (scripted stdlib random, icontract in place, sys.monitoring); checks import /repo's working tree directly",
        "baseline_off_cmd": "cd /repo && /venv/bin/python -m pytest -ra -q -p no:cacheprovider --timeout=900 --continue-on-collection-errors",
        "source_commits": [],
        "add_only": True,
    },
    "engines": [{"name": "pv", "path": "/verif/pv", "serves_properties": sorted(BUILT),
                 "kind_free_text": "Python runtime-monitoring driver (history + reference models, icontract invariants, sys.monitoring line hooks, scripted randomness, C reference under ASan/UBSan)"}],
    "checks": checks,
    "notes": "Exit codes: 0 held on everything explored; 1 + 'VIOLATION property=<id> replay=<path>'; 2 + 'INCONCLUSIVE ...' when the deciding monitor was not reached. "
             "VERIF_SEED selects the workload seed; VERIF_REPO (default /repo) selects the tree to import.",
    "not_applicable": na,
}
with open(os.path.join(ROOT, "MANIFEST.json"), "w") as f:
    json.dump(m, f, indent=1)
print("MANIFEST.json:", len(checks), "checks,", len(na), "not yet claimed")
