#!/usr/bin/env python3
"""Prepares one round of independently seeded changes: for every property a scratch git worktree of /repo under <base>/<id>
and a prompt file <base>/prompt_<id>.txt that contains ONLY the property text, the worktree path and the list of earlier
seeded changes for that property (so a new one is different in nature) - nothing about how /verif checks anything.

  tools/seedround.py <base-dir> <round-number> [ids...]

The prompts are handed to fresh sub-agents; results come back through tools/seeded.py import / verify / check.
"""
import glob
import json
import os
import subprocess
import sys

ROOT = os.path.dirname(os.path.dirname(os.path.realpath(__file__)))

THEMES = {
    "A": ("build the defect into what happens when a public call RAISES a documented exception or is REFUSED (bad argument, full structure, "
          "incompatible operand, unsupported operation), i.e. in the state the object is left in for LATER calls, or in an ordering of two "
          "updates that only matters when the second one fails."),
    "B": ("build the defect into a RARELY USED public entry point or parameter of the classes involved (read their whole public API: alternative "
          "constructors and loaders, `*_alt` methods, `force`, hex / file-object / bytes / path channels, properties with setters, dunder methods such "
          "as `__contains__`, `__str__`, `__bytes__`, module-level helpers) so that it diverges from the mainstream path only there, or only when it is "
          "combined with a second feature."),
    "C": ("build the defect around an ARITHMETIC or SIZE BOUNDARY: power-of-two / multiple-of-8 / multiple-of-64 sizes, width / depth / bucket size / queue "
          "size of 1, amounts of 0 or at the integer limits, extremely small or large error rates, sizes in the hundreds of thousands, very long keys, non-ASCII text keys, "
          "bytes versus str spellings of one key. Typical values must stay correct."),
    "D": ("build the defect as a behaviour-preserving-LOOKING refactoring that silently relies on something that does not hold in general: iteration or insertion "
          "order of a dict / set / list, tie-breaking of `sorted` / `min` / `max`, truthiness of 0 / empty containers, `==` versus `is`, integer versus float division or "
          "rounding, mutable default arguments, shallow versus deep copies, a loop bound computed once before the loop body changes it."),
    "E": ("build the defect into the INTERACTION OF TWO OBJECTS: receiver versus argument of a set operation / merge / join, a result object and the operands it "
          "came from, a reloaded copy and its original, two instances of the same class alive at once. Think of state shared by accident, or of the two roles "
          "being handled asymmetrically. Each object used alone must stay correct."),
    "F": ("build the defect into STATE THAT OUTLIVES ONE INSTANCE OR ONE CALL: class attributes used as instance state, module-level tables or caches, default "
          "arguments evaluated once, attributes that are set lazily on first use and not reset by clear() / reload / resize, values remembered from the previous call."),
    "G": ("build the defect so that it needs a LONG or LARGE history to manifest: a counter crossing 255 / 65 535 / 2^31, the 3rd or 4th expansion / rotation / resize "
          "rather than the first, hundreds of keys, a table that has been filled and emptied again, many close/reopen or export/load cycles. Short ordinary use must stay correct."),
    "H": ("build the defect into the handling of KEY TYPES AND ENCODINGS or ARGUMENT TYPES that the API accepts besides the usual ones: bytes versus str keys, non-ASCII "
          "text, empty keys, very long keys, `pathlib.Path` versus str paths, bytearray / memoryview buffers, numpy-like integers or bools, floats that are whole numbers."),
    "X": ("assume the property is ALREADY being checked by a generic randomized tester: thousands of short random operation histories over small key universes "
          "(a dozen keys), small and medium geometries, all public mutators and loaders picked at random, compared against a simple reference model after every "
          "call. Build a defect that such a tester is UNLIKELY to hit by chance: it should need a conjunction of two or three specific conditions (a particular "
          "value relation between parameters, a particular order of two rare operations, a particular size relation between two objects, a value that is only "
          "reached after a specific build-up), each of which is plausible in real use."),
}


def props():
    return [json.loads(l) for l in open(os.path.join(ROOT, "properties.jsonl")) if l.strip()]


def earlier(pid):
    out = []
    for m in sorted(glob.glob(os.path.join(ROOT, "seeded", pid + "-*", "meta.json"))):
        try:
            out.append(json.load(open(m)).get("summary", "")[:230].replace("\n", " "))
        except Exception:
            pass
    return out


def prompt(p, wt, theme):
    pid = p["id"]
    files = ", ".join(p.get("anchors", {}).get("files", []))
    notes = "\n".join("  - " + s for s in earlier(pid))
    return f"""You are helping to evaluate a verification framework by seeding a realistic defect into a Python library (barrust/pyprobables, a pure-Python library of probabilistic data structures: Bloom filters, count-min sketches, cuckoo and quotient filters).

You have your OWN scratch git worktree of the library at: {wt}   (work ONLY there; never touch or read /repo or /verif — those are off-limits, do not even list them).
Run things with the interpreter /venv/bin/python and make the worktree importable with PYTHONPATH={wt} (check `python -c "import probables; print(probables.__file__)"` prints a path under {wt}).
The existing test-suite command is:  cd {wt} && PYTHONPATH={wt} /venv/bin/python -m pytest -q -p no:cacheprovider     (312 tests, all pass on the unmodified tree). There is no network.

Here is a semantic property that the library is supposed to satisfy:

-----
{pid}: {p['title']}

STATEMENT: {p['statement']}

QUANTIFIED OVER: {p['quantifier']['text']}

FILES INVOLVED: {files}

-----

YOUR TASK: make ONE realistic change to the library source (under {wt}/probables/) that BREAKS this property while the code still imports and ALL 312 existing tests still pass. The change should look like a plausible bug a maintainer could introduce (an off-by-one, a wrong boundary condition, a forgotten code path, a "performance optimisation" or refactoring that is wrong in a corner, two cooperating sites that each look fine alone), NOT an obviously malicious special-case on a magic string.
IMPORTANT: the defect must need something SPECIFIC to manifest — e.g. a multi-step sequence of operations, a particular geometry/size/residue, an unusual input, a reload in the middle of a history, a particular internal random choice, a crash/fault at a particular point — rather than being exposed at once by ordinary use (if the very first add/check on a default object fails, it is too easy). Prefer subtle over blatant.

NOTE 1: other engineers already seeded the following changes for this property; yours must be DIFFERENT IN NATURE (another function / mechanism / trigger), not a variation:
{notes}

NOTE 2: this time {THEMES[theme]} The mainstream path (plain add/check on a freshly built default object) must stay correct. The violation you demonstrate must be a violation of the property AS STATED (within what it quantifies over), not of some neighbouring behaviour. Aim for a diff a reviewer would accept. Keep the effort bounded: a targeted defect plus a small demo is enough.

DELIVERABLES (all inside {wt}/_seeded/ , create that directory):
 1. patch.diff  — output of `git -C {wt} diff -- probables` (the change, applicable with `git apply` to the unmodified tree).
 2. demo.py — a small standalone program (or pytest file demo_test.py) that exits non-zero / fails WITH the change and exits 0 / passes WITHOUT it; run with PYTHONPATH=<tree> /venv/bin/python demo.py. It must demonstrate a violation of the property as stated (not of some other behaviour).
 3. meta.json — {{"property": "{pid}", "summary": "...what was changed...", "needs": "...what specific condition is needed for it to manifest...", "files": [...], "ran": ["commands you ran and their outcome"]}}

Before finishing, VERIFY yourself: (a) with the change applied the full existing test-suite passes (312 passed); (b) demo fails with the change; (c) `git stash` (or `git apply -R`) the change: demo passes on the unmodified tree; then re-apply the change so the worktree ends WITH the change applied and patch.diff matching it. Do not commit anything. Do not modify the tests directory. Leave no other files outside _seeded/.
Report back in a few lines: what you changed, what it needs to manifest, and the verification results.
"""


def main():
    base, rnd = sys.argv[1], int(sys.argv[2])
    only = set(sys.argv[3:])
    os.makedirs(base, exist_ok=True)
    for i, p in enumerate(props()):
        pid = p["id"]
        if only and pid not in only:
            continue
        wt = os.path.join(base, pid)
        if not os.path.exists(wt):
            subprocess.run(["git", "-C", "/repo", "worktree", "add", "--detach", wt, "HEAD"], check=True, capture_output=True)
        theme = "X" if rnd % 2 == 0 else "ABCDEFGH"[(i * 3 + rnd) % 8]
        with open(os.path.join(base, f"prompt_{pid}.txt"), "w") as f:
            f.write(prompt(p, wt, theme))
        print(pid, theme, wt)


if __name__ == "__main__":
    main()
