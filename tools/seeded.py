#!/usr/bin/env python3
"""Handling of seeded changes (written by independent sub-agents) kept under /verif/seeded/<name>/.

  tools/seeded.py import <name> <agent_worktree>     copy patch.diff, demo*, meta.json from <worktree>/_seeded
  tools/seeded.py verify <name>                      scratch copy of /repo HEAD: patch applies, 312 tests pass, demo fails with / passes without
  tools/seeded.py check <name> [--tier quick] [--props C01,C05] [--seed N]
                                                     run the registered checks of the property against a patched scratch copy
  tools/seeded.py all [--tier quick]                 check every seeded change, print a table
Scratch copies live under /tmp and are removed afterwards.
"""
import glob
import json
import os
import shutil
import subprocess
import sys
import tempfile

ROOT = os.path.dirname(os.path.dirname(os.path.realpath(__file__)))
SEEDED = os.path.join(ROOT, "seeded")
PY = "/venv/bin/python"


def scratch_copy():
    d = tempfile.mkdtemp(prefix="pvseed-")
    subprocess.run(["git", "-C", "/repo", "worktree", "add", "--detach", d, "HEAD"], check=True, capture_output=True)
    return d


def drop(d):
    subprocess.run(["git", "-C", "/repo", "worktree", "remove", "--force", d], capture_output=True)
    shutil.rmtree(d, ignore_errors=True)
    subprocess.run(["git", "-C", "/repo", "worktree", "prune"], capture_output=True)


def demo_of(name):
    for cand in ("demo.py", "demo_test.py", "test_demo.py"):
        p = os.path.join(SEEDED, name, cand)
        if os.path.exists(p):
            return p
    c = [p for p in glob.glob(os.path.join(SEEDED, name, "*.py"))]
    return c[0] if c else None


def run_demo(demo, tree):
    env = dict(os.environ, PYTHONPATH=tree, PYTHONDONTWRITEBYTECODE="1")
    if os.path.basename(demo).startswith("demo_test") or os.path.basename(demo).startswith("test_"):
        cmd = [PY, "-m", "pytest", "-q", "-p", "no:cacheprovider", demo]
    else:
        cmd = [PY, demo]
    r = subprocess.run(cmd, cwd=tree, env=env, capture_output=True, text=True, timeout=600)
    return r.returncode, (r.stdout + r.stderr)[-400:]


def cmd_import(name, wt):
    src = os.path.join(wt, "_seeded")
    dst = os.path.join(SEEDED, name)
    os.makedirs(dst, exist_ok=True)
    for f in os.listdir(src):
        if os.path.isfile(os.path.join(src, f)):
            shutil.copy(os.path.join(src, f), dst)
    print("imported", sorted(os.listdir(dst)))


def apply_patch(name, tree):
    r = subprocess.run(["git", "-C", tree, "apply", os.path.join(SEEDED, name, "patch.diff")], capture_output=True, text=True)
    if r.returncode != 0:
        r = subprocess.run(["git", "-C", tree, "apply", "--3way", os.path.join(SEEDED, name, "patch.diff")], capture_output=True, text=True)
    return r.returncode == 0, r.stderr[-300:]


def cmd_verify(name):
    demo = demo_of(name)
    d = scratch_copy()
    res = {}
    try:
        rc0, out0 = run_demo(demo, d)
        res["demo_on_unchanged_tree"] = "pass" if rc0 == 0 else f"FAIL rc={rc0} {out0}"
        ok, err = apply_patch(name, d)
        res["patch_applies_to_current_HEAD"] = ok if ok else err
        if ok:
            r = subprocess.run([PY, "-m", "pytest", "-q", "-p", "no:cacheprovider"], cwd=d, capture_output=True, text=True,
                               env=dict(os.environ, PYTHONPATH=d, PYTHONDONTWRITEBYTECODE="1"))
            res["tests_with_change"] = r.stdout.strip().splitlines()[-1] if r.stdout.strip() else r.stderr[-200:]
            rc1, out1 = run_demo(demo, d)
            res["demo_with_change"] = f"fails rc={rc1}" if rc1 != 0 else "PASSES (demo does not show the break)"
            res["demo_output_with_change"] = out1.strip()[-300:]
    finally:
        drop(d)
    print(json.dumps(res, indent=1))
    return res


def cmd_check(name, tier="quick", props=None, seed=0):
    meta = json.load(open(os.path.join(SEEDED, name, "meta.json")))
    props = props or [meta.get("property", name[:3])]
    d = scratch_copy()
    out = {}
    try:
        ok, err = apply_patch(name, d)
        if not ok:
            print("patch does not apply:", err)
            return {}
        for pid in props:
            env = dict(os.environ, VERIF_REPO=d, VERIF_SEED=str(seed))
            r = subprocess.run([os.path.join(ROOT, "vcheck"), pid, "--tier", tier, "--no-evidence"], capture_output=True, text=True, env=env, timeout=7200)
            what = [l.strip() for l in r.stdout.splitlines() if l.strip().startswith("what:")]
            out[pid] = ("CAUGHT: " + what[0][6:160]) if (r.returncode == 1 and "VIOLATION property=" in r.stdout) else (
                "missed" if r.returncode == 0 else f"rc={r.returncode} {r.stdout.strip().splitlines()[-1][:200] if r.stdout.strip() else r.stderr[-200:]}")
    finally:
        drop(d)
    for pid, v in out.items():
        print(f"{name:28s} {pid} [{tier}] {v}")
    return out


def main():
    a = sys.argv[1:]
    if not a:
        print(__doc__)
        return 2
    tier, props, seed = "quick", None, 0
    if "--tier" in a:
        i = a.index("--tier"); tier = a[i + 1]; del a[i:i + 2]
    if "--props" in a:
        i = a.index("--props"); props = a[i + 1].split(","); del a[i:i + 2]
    if "--seed" in a:
        i = a.index("--seed"); seed = int(a[i + 1]); del a[i:i + 2]
    if a[0] == "import":
        cmd_import(a[1], a[2])
    elif a[0] == "verify":
        cmd_verify(a[1])
    elif a[0] == "check":
        cmd_check(a[1], tier, props, seed)
    elif a[0] == "all":
        for name in sorted(os.listdir(SEEDED)):
            if os.path.exists(os.path.join(SEEDED, name, "patch.diff")):
                cmd_check(name, tier, props, seed)
    return 0


if __name__ == "__main__":
    sys.exit(main())
