#!/bin/bash
# tools/seedin.sh <base> <PROP> <name>: import a sub-agent's result from <base>/<PROP>/_seeded, verify it, run the property's quick check against it, drop the worktree
cd "$(dirname "$0")/.." || exit 2
base=$1; p=$2; n=$3
python3 tools/seeded.py import "$n" "$base/$p" >/dev/null || exit 2
python3 tools/seeded.py verify "$n" | tr '\n' ' ' | cut -c1-210; echo
python3 tools/seeded.py check "$n" | tail -1
git -C /repo worktree remove --force "$base/$p"; git -C /repo worktree prune
