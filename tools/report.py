#!/usr/bin/env python3
"""Runs every seeded change and every catalogue mutant against the current checks and writes
seeded/RESULTS.md and mutants/RESULTS.md (the tables referred to by DESIGN.md section 11).

  tools/report.py [--tier quick] [-j 6]
"""
import concurrent.futures as cf
import json
import os
import subprocess
import sys

ROOT = os.path.dirname(os.path.dirname(os.path.realpath(__file__)))
sys.path.insert(0, os.path.join(ROOT, "tools"))
import seeded as S  # noqa


def one_seed(name, tier):
    meta = json.load(open(os.path.join(S.SEEDED, name, "meta.json")))
    prop = meta.get("property", name[:3])
    if not isinstance(prop, str) or not prop.startswith("C"):
        prop = name[:3]
    d = S.scratch_copy()
    try:
        ok, err = S.apply_patch(name, d)
        if not ok:
            return name, prop, "patch does not apply", ""
        env = dict(os.environ, VERIF_REPO=d)
        r = subprocess.run([os.path.join(ROOT, "vcheck"), prop, "--tier", tier, "--no-evidence"], capture_output=True, text=True, env=env, timeout=7200)
        what = [l.strip()[6:] for l in r.stdout.splitlines() if l.strip().startswith("what:")]
        if r.returncode == 1 and "VIOLATION property=" in r.stdout:
            return name, prop, "caught", what[0][:150] if what else ""
        return name, prop, "MISSED" if r.returncode == 0 else f"rc={r.returncode}", ""
    finally:
        S.drop(d)


def main():
    tier = "quick"
    j = 6
    a = sys.argv[1:]
    if "--tier" in a:
        tier = a[a.index("--tier") + 1]
    if "-j" in a:
        j = int(a[a.index("-j") + 1])
    names = sorted(n for n in os.listdir(S.SEEDED) if os.path.exists(os.path.join(S.SEEDED, n, "patch.diff")))
    rows = []
    with cf.ThreadPoolExecutor(j) as ex:
        for res in ex.map(lambda n: one_seed(n, tier), names):
            rows.append(res)
            print(*res, flush=True)
    with open(os.path.join(S.SEEDED, "RESULTS.md"), "w") as f:
        f.write(f"# Independently seeded changes vs. the checks ({tier} tier, unchanged seed 0)\n\n")
        f.write("Each change was written by a sub-agent that saw only the property text and a scratch worktree; it passes the repository's 312 tests.\n")
        f.write("`needs` is the agent's own description (meta.json).\n\n| change | property | result | first witness reported by the check | needs (from meta.json) |\n|---|---|---|---|---|\n")
        for name, prop, res, what in rows:
            meta = json.load(open(os.path.join(S.SEEDED, name, "meta.json")))
            needs = str(meta.get("needs", "")).replace("\n", " ").replace("|", "/")[:260]
            f.write(f"| {name} | {prop} | {res} | {what.replace('|', '/')} | {needs} |\n")
        f.write(f"\n{sum(1 for r in rows if r[2] == 'caught')} of {len(rows)} caught.\n")
    r = subprocess.run([os.path.join(ROOT, "selftest"), "-j", str(j), "--tier", tier], capture_output=True, text=True, cwd=ROOT)
    with open(os.path.join(ROOT, "mutants", "RESULTS.md"), "w") as f:
        f.write(f"# Mutant catalogue vs. the checks ({tier} tier)\n\n```\n")
        for line in r.stdout.splitlines():
            if "No module" in line or line.startswith("]") or "tstrap" in line:
                continue
            f.write(line[:230] + "\n")
        f.write("```\n")
    print(r.stdout.splitlines()[-2:])


if __name__ == "__main__":
    main()
