#!/usr/bin/env python3
"""Prints the table of registered workloads per property (name, quick cases, thorough cases) from the Prop definitions."""
import importlib
import os
import sys

ROOT = os.path.dirname(os.path.dirname(os.path.realpath(__file__)))
sys.path.insert(0, ROOT)
sys.path.insert(0, os.path.join(ROOT, ".deps"))
print("| property | workloads (quick cases / thorough cases) |")
print("|---|---|")
for i in range(1, 21):
    pid = f"C{i:02d}"
    m = importlib.import_module(f"pv.props.c{i:02d}")
    ws = ", ".join(f"`{w.name}` {w.n["quick"]}/{w.n["thorough"]}" for w in m.PROP.workloads)
    print(f"| {pid} | {ws} |")
