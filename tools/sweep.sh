#!/bin/bash
# tools/sweep.sh <tier> <seed>... : runs every check with each seed (no evidence written) and reports anything that is not "held"
cd "$(dirname "$0")/.." || exit 2
tier=$1; shift
bad=0
for seed in "$@"; do
  for p in C01 C02 C03 C04 C05 C06 C07 C08 C09 C10 C11 C12 C13 C14 C15 C16 C17 C18 C19 C20; do
    out=$(VERIF_SEED=$seed ./vcheck $p --tier $tier --no-evidence 2>&1); rc=$?
    if [ $rc -ne 0 ]; then bad=1; echo "seed=$seed $p rc=$rc"; echo "$out" | grep -E "what:|INCONCL|also" | head -5; fi
  done
  echo "seed $seed done"
done
exit $bad
