/* tools/fnv_extremes.c - searches short ASCII keys whose 64-bit FNV-1a running state (after the xor of a byte, before the
 * multiplication), for one of the hash indices 0..7 of the library's default strategy (offset basis advanced by 31 per index),
 * comes within 2^32 of 2^64 (or of 0): the extreme operands of the 64-bit multiply-and-mask step.  An implementation that widens,
 * batches or vectorises that step is most likely to differ from the reference exactly there.  The output (one JSON list of
 * [key, index, byte position, "high"|"low"]) is committed as data/fnv_extreme_keys.json; the C18 check only reads it.
 *   cc -O2 -fopenmp -o /tmp/fnv_extremes tools/fnv_extremes.c && /tmp/fnv_extremes 8 > data/fnv_extreme_keys.json            */
#include <stdint.h>
#include <stdio.h>
#include <stdlib.h>
#include <string.h>

#define PRIME 0x100000001b3ULL
#define BASIS 14695981039346656037ULL
static const char AL[] = "abcdefghijklmnopqrstuvwxyz0123456789";

int main(int argc, char **argv) {
    int per_class = argc > 1 ? atoi(argv[1]) : 6;
    int found[8][2];
    memset(found, 0, sizeof found);
    int first = 1;
    printf("[");
#pragma omp parallel for schedule(dynamic, 1)
    for (int a = 0; a < 36 * 36 * 36; a++) {
        char key[12];
        int all = 1;
        for (int i = 0; i < 8; i++) for (int j = 0; j < 2; j++) if (found[i][j] < per_class) all = 0;
        if (all) continue; /* every quota is filled: nothing left to look for */
        key[0] = AL[a / 1296];
        key[1] = AL[a / 36 % 36];
        key[2] = AL[a % 36];
        for (int idx = 0; idx < 8; idx++) {
            uint64_t h0 = BASIS + 31ULL * (uint64_t)idx;
            h0 = (h0 ^ (uint8_t)key[0]) * PRIME;
            h0 = (h0 ^ (uint8_t)key[1]) * PRIME;
            h0 = (h0 ^ (uint8_t)key[2]) * PRIME;
            for (int b = 0; b < 36; b++) for (int c = 0; c < 36; c++) for (int d = 0; d < 36; d++) {
                uint64_t h3 = h0;
                key[3] = AL[b]; key[4] = AL[c]; key[5] = AL[d];
                h3 = (h3 ^ (uint8_t)key[3]) * PRIME; h3 = (h3 ^ (uint8_t)key[4]) * PRIME; h3 = (h3 ^ (uint8_t)key[5]) * PRIME;
                for (int e = 0; e < 36; e++) {
                    uint64_t h4 = (h3 ^ (uint8_t)AL[e]) * PRIME;
                    for (int f = 0; f < 1; f++) { /* the last byte only touches the low 8 bits: one value will do */
                        uint64_t x = h4 ^ (uint8_t)AL[f];            /* the state after the xor of byte 7 */
                        int hi = x >= 0xFFFFFFFF00000000ULL, lo = x <= 0xFFFFFFFFULL;
                        if (hi || lo) {
                            key[6] = AL[e]; key[7] = AL[f]; key[8] = 'a'; key[9] = 0;
#pragma omp critical
                            {
                                if (found[idx][hi ? 0 : 1] < per_class) {
                                    found[idx][hi ? 0 : 1]++;
                                    printf("%s[\"%s\", %d, 7, \"%s\"]", first ? "" : ", ", key, idx, hi ? "high" : "low");
                                    first = 0;
                                }
                            }
                            break; /* the other last bytes give the same high bits: one witness per state */
                        }
                    }
                }
            }
            int done = 1;
            for (int i = 0; i < 8; i++) for (int j = 0; j < 2; j++) if (found[i][j] < per_class) done = 0;
            if (done) break;
        }
    }
    printf("]\n");
    return 0;
}
