/* ppref.c - independent reference reader/writer for the C-compatible export formats of pyprobables,
 * written from the documented layout (NOT from the Python sources):
 *
 *   Bloom filter file      : ceil(m/8) bytes, bit i = bit (i mod 8) of byte (i div 8); footer {u64 est, u64 added, f32 fpr}
 *   counting Bloom file    : m x u32 counters; same footer
 *   count-min sketch file  : depth x width x i32 counters (row-major: row i at offset i*width); footer {u32 width, u32 depth, i64 added}
 *   geometry               : m = ceil(-n ln p / ln^2 2), k = round(ln2 m / n), p being the 32-bit float of the footer
 *   hashing                : h_i(key) = FNV-1a-64(key) with offset basis 14695981039346656037 + 31*i ; position = h_i mod size
 *
 * Batch driven: one command per line on stdin, one answer per line on stdout.  Keys are hex ("-" = empty key).
 * Built with -fsanitize=address,undefined -fno-sanitize-recover=all: a file whose cell array is shorter than its footer
 * promises makes the reader fault instead of answering from garbage.
 */
#include <inttypes.h>
#include <math.h>
#include <stdint.h>
#include <stdio.h>
#include <stdlib.h>
#include <string.h>

static uint64_t fnv1a64(const unsigned char *key, size_t len, uint64_t seed) {
    uint64_t h = 14695981039346656037ULL + 31ULL * seed;
    for (size_t i = 0; i < len; i++) {
        h ^= (uint64_t)key[i];
        h *= 1099511628211ULL;
    }
    return h;
}

static uint32_t fnv1a32(const unsigned char *key, size_t len, uint32_t seed) {
    uint32_t h = 0x811C9DC5u + 31u * seed;
    for (size_t i = 0; i < len; i++) {
        h ^= (uint32_t)key[i];
        h *= 0x01000193u;
    }
    return h;
}

static int hexval(int c) {
    if (c >= '0' && c <= '9') return c - '0';
    if (c >= 'a' && c <= 'f') return c - 'a' + 10;
    if (c >= 'A' && c <= 'F') return c - 'A' + 10;
    return -1;
}

/* decode hex token into a freshly malloc'd exact-size buffer */
static unsigned char *unhex(const char *tok, size_t *len) {
    if (strcmp(tok, "-") == 0) {
        *len = 0;
        return (unsigned char *)malloc(1);
    }
    size_t n = strlen(tok) / 2;
    unsigned char *out = (unsigned char *)malloc(n ? n : 1);
    for (size_t i = 0; i < n; i++) out[i] = (unsigned char)(hexval(tok[2 * i]) * 16 + hexval(tok[2 * i + 1]));
    *len = n;
    return out;
}

/* read a whole file into an exact-size heap buffer (so that ASan guards its end) */
static unsigned char *slurp(const char *path, size_t *len) {
    FILE *f = fopen(path, "rb");
    if (!f) return NULL;
    fseek(f, 0, SEEK_END);
    long sz = ftell(f);
    fseek(f, 0, SEEK_SET);
    unsigned char *buf = (unsigned char *)malloc(sz > 0 ? (size_t)sz : 1);
    size_t got = fread(buf, 1, (size_t)sz, f);
    fclose(f);
    *len = got;
    return buf;
}

static void geometry(uint64_t n, float p, uint64_t *m, uint64_t *k) {
    double ln2 = log(2.0);
    double bits = ceil((-(double)n * log((double)p)) / (ln2 * ln2));
    *m = (uint64_t)bits;
    *k = (uint64_t)llround(ln2 * bits / (double)n);
}

#define FOOTER_LEN 20

static int read_footer(const unsigned char *buf, size_t len, uint64_t *est, uint64_t *added, float *fpr) {
    if (len < FOOTER_LEN) return -1;
    memcpy(est, buf + len - 20, 8);
    memcpy(added, buf + len - 12, 8);
    memcpy(fpr, buf + len - 4, 4);
    return 0;
}

static int64_t floordiv(int64_t a, int64_t b) {
    int64_t q = a / b, r = a % b;
    if (r != 0 && ((r < 0) != (b < 0))) q -= 1;
    return q;
}

static int cmp_i64(const void *a, const void *b) {
    int64_t x = *(const int64_t *)a, y = *(const int64_t *)b;
    return (x > y) - (x < y);
}

#define MAXTOK 70000
static char *toks[MAXTOK];

int main(void) {
    size_t cap = 1 << 20;
    char *line = (char *)malloc(cap);
    for (;;) {
        /* read one (possibly very long) line */
        size_t n = 0;
        int c;
        while ((c = getchar()) != EOF && c != '\n') {
            if (n + 2 >= cap) {
                cap *= 2;
                line = (char *)realloc(line, cap);
            }
            line[n++] = (char)c;
        }
        if (c == EOF && n == 0) break;
        line[n] = 0;
        int nt = 0;
        for (char *t = strtok(line, " "); t && nt < MAXTOK; t = strtok(NULL, " ")) toks[nt++] = t;
        if (nt == 0) continue;
        const char *cmd = toks[0];

        if (strcmp(cmd, "fnv64") == 0 && nt == 3) {
            size_t kl;
            unsigned char *k = unhex(toks[2], &kl);
            printf("%" PRIu64 "\n", fnv1a64(k, kl, strtoull(toks[1], NULL, 10)));
            free(k);
        } else if (strcmp(cmd, "fnv32") == 0 && nt == 3) {
            size_t kl;
            unsigned char *k = unhex(toks[2], &kl);
            printf("%" PRIu32 "\n", fnv1a32(k, kl, (uint32_t)strtoull(toks[1], NULL, 10)));
            free(k);
        } else if (strcmp(cmd, "geom") == 0 && nt == 3) {
            /* geom <n> <fpr bits as u32> */
            uint32_t bits = (uint32_t)strtoul(toks[2], NULL, 10);
            float p;
            memcpy(&p, &bits, 4);
            uint64_t m, k;
            geometry(strtoull(toks[1], NULL, 10), p, &m, &k);
            printf("%" PRIu64 " %" PRIu64 "\n", m, k);
        } else if ((strcmp(cmd, "bloom_check") == 0 || strcmp(cmd, "cbloom_check") == 0) && nt >= 3) {
            /* bloom_check <file> <key>... -> one answer per key on one line */
            int counting = cmd[0] == 'c';
            size_t len;
            unsigned char *buf = slurp(toks[1], &len);
            uint64_t est, added, m, k;
            float fpr;
            if (!buf || read_footer(buf, len, &est, &added, &fpr)) {
                printf("ERR unreadable\n");
                free(buf);
                fflush(stdout);
                continue;
            }
            geometry(est, fpr, &m, &k);
            size_t cells_len = len - FOOTER_LEN;
            size_t want = counting ? (size_t)m * 4 : (size_t)((m + 7) / 8);
            /* the reader does not trust the length: it indexes what the footer promises; ASan guards the buffer */
            printf("OK %" PRIu64 " %" PRIu64 " %" PRIu64 " %" PRIu64 " %zu %zu", est, added, m, k, cells_len, want);
            for (int t = 2; t < nt; t++) {
                size_t kl;
                unsigned char *key = unhex(toks[t], &kl);
                if (counting) {
                    uint32_t best = UINT32_MAX;
                    for (uint64_t i = 0; i < k; i++) {
                        uint64_t pos = fnv1a64(key, kl, i) % m;
                        uint32_t v;
                        memcpy(&v, buf + 4 * pos, 4);
                        if (v < best) best = v;
                    }
                    printf(" %" PRIu32, best);
                } else {
                    int present = 1;
                    for (uint64_t i = 0; i < k && present; i++) {
                        uint64_t pos = fnv1a64(key, kl, i) % m;
                        if (((buf[pos / 8] >> (pos % 8)) & 1) == 0) present = 0;
                    }
                    printf(" %d", present);
                }
                free(key);
            }
            printf("\n");
            free(buf);
        } else if (strcmp(cmd, "cms_check") == 0 && nt >= 4) {
            /* cms_check <file> <min|mean|meanmin> <key>... */
            size_t len;
            unsigned char *buf = slurp(toks[1], &len);
            if (!buf || len < 16) {
                printf("ERR unreadable\n");
                free(buf);
                fflush(stdout);
                continue;
            }
            uint32_t width, depth;
            int64_t added;
            memcpy(&width, buf + len - 16, 4);
            memcpy(&depth, buf + len - 12, 4);
            memcpy(&added, buf + len - 8, 8);
            printf("OK %" PRIu32 " %" PRIu32 " %" PRId64 " %zu", width, depth, added, len - 16);
            const char *mode = toks[2];
            int64_t *vals = (int64_t *)malloc(sizeof(int64_t) * (depth ? depth : 1));
            for (int t = 3; t < nt; t++) {
                size_t kl;
                unsigned char *key = unhex(toks[t], &kl);
                for (uint32_t i = 0; i < depth; i++) {
                    uint64_t pos = (fnv1a64(key, kl, i) % width) + (uint64_t)i * width;
                    int32_t v;
                    memcpy(&v, buf + 4 * pos, 4);
                    vals[i] = v;
                }
                int64_t res = 0;
                if (strcmp(mode, "min") == 0) {
                    res = vals[0];
                    for (uint32_t i = 1; i < depth; i++)
                        if (vals[i] < res) res = vals[i];
                } else if (strcmp(mode, "mean") == 0) {
                    int64_t s = 0;
                    for (uint32_t i = 0; i < depth; i++) s += vals[i];
                    res = floordiv(s, (int64_t)depth);
                } else { /* meanmin: median of (v - (added - v) / (width - 1)); all-zero -> 0 */
                    int allzero = 1;
                    for (uint32_t i = 0; i < depth; i++)
                        if (vals[i] != 0) allzero = 0;
                    if (allzero) {
                        res = 0;
                    } else {
                        for (uint32_t i = 0; i < depth; i++) vals[i] = vals[i] - floordiv(added - vals[i], (int64_t)width - 1);
                        qsort(vals, depth, sizeof(int64_t), cmp_i64);
                        if (depth % 2 == 0)
                            res = floordiv(vals[depth / 2] + vals[depth / 2 - 1], 2);
                        else
                            res = vals[depth / 2];
                    }
                }
                printf(" %" PRId64, res);
                free(key);
            }
            printf("\n");
            free(vals);
            free(buf);
        } else if ((strcmp(cmd, "bloom_write") == 0 || strcmp(cmd, "cbloom_write") == 0) && nt >= 4) {
            /* bloom_write <out> <est> <fprbits> <key>...          (each key added once)
               cbloom_write <out> <est> <fprbits> <key> <count>... (count may be negative = removal; no saturation reached) */
            int counting = cmd[0] == 'c';
            uint64_t est = strtoull(toks[2], NULL, 10), m, k, added = 0;
            uint32_t bits = (uint32_t)strtoul(toks[3], NULL, 10);
            float p;
            memcpy(&p, &bits, 4);
            geometry(est, p, &m, &k);
            size_t clen = counting ? (size_t)m * 4 : (size_t)((m + 7) / 8);
            unsigned char *cells = (unsigned char *)calloc(clen ? clen : 1, 1);
            int step = counting ? 2 : 1;
            for (int t = 4; t + step - 1 < nt; t += step) {
                size_t kl;
                unsigned char *key = unhex(toks[t], &kl);
                int64_t cnt = counting ? strtoll(toks[t + 1], NULL, 10) : 1;
                for (uint64_t i = 0; i < k; i++) {
                    uint64_t pos = fnv1a64(key, kl, i) % m;
                    if (counting) {
                        uint32_t v;
                        memcpy(&v, cells + 4 * pos, 4);
                        v = (uint32_t)((int64_t)v + cnt);
                        memcpy(cells + 4 * pos, &v, 4);
                    } else {
                        cells[pos / 8] |= (unsigned char)(1u << (pos % 8));
                    }
                }
                added = (uint64_t)((int64_t)added + cnt);
                free(key);
            }
            FILE *f = fopen(toks[1], "wb");
            fwrite(cells, 1, clen, f);
            fwrite(&est, 8, 1, f);
            fwrite(&added, 8, 1, f);
            fwrite(&p, 4, 1, f);
            fclose(f);
            printf("OK %" PRIu64 " %" PRIu64 "\n", m, k);
            free(cells);
        } else if (strcmp(cmd, "cms_write") == 0 && nt >= 4) {
            /* cms_write <out> <width> <depth> <key> <count>... */
            uint32_t width = (uint32_t)strtoul(toks[2], NULL, 10), depth = (uint32_t)strtoul(toks[3], NULL, 10);
            int64_t added = 0;
            size_t ncell = (size_t)width * depth;
            int32_t *cells = (int32_t *)calloc(ncell ? ncell : 1, 4);
            for (int t = 4; t + 1 < nt; t += 2) {
                size_t kl;
                unsigned char *key = unhex(toks[t], &kl);
                int64_t cnt = strtoll(toks[t + 1], NULL, 10);
                for (uint32_t i = 0; i < depth; i++) {
                    uint64_t pos = (fnv1a64(key, kl, i) % width) + (uint64_t)i * width;
                    int64_t v = (int64_t)cells[pos] + cnt; /* documented rule: counters saturate at the int32 limits */
                    if (v > INT32_MAX) v = INT32_MAX;
                    if (v < INT32_MIN) v = INT32_MIN;
                    cells[pos] = (int32_t)v;
                }
                added += cnt;
                free(key);
            }
            FILE *f = fopen(toks[1], "wb");
            fwrite(cells, 4, ncell, f);
            fwrite(&width, 4, 1, f);
            fwrite(&depth, 4, 1, f);
            fwrite(&added, 8, 1, f);
            fclose(f);
            printf("OK\n");
            free(cells);
        } else {
            printf("ERR unknown command\n");
        }
        fflush(stdout);
    }
    free(line);
    return 0;
}
