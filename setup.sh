#!/bin/bash
# offline setup after a fresh restore: third-party contract library beside the repo's interpreter, C reference build
cd "$(dirname "$0")" || exit 1
export PIP_NO_INDEX=1
if [ ! -d .deps/icontract ]; then
  /venv/bin/pip install -q --no-index --find-links /opt/veriftools/wheels --target .deps icontract || echo "warning: icontract not installed"
fi
mkdir -p build evidence replays
if [ -f cref/ppref.c ]; then
  clang -O1 -g -fsanitize=address,undefined -fno-sanitize-recover=all -fno-omit-frame-pointer -o build/ppref cref/ppref.c -lm || echo "warning: C reference failed to build"
fi
exit 0
